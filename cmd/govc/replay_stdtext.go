package main

// Replay template for the special-case printer's text obligations (C01 / C09): the text it prints
// for a standard-library wrapper must be the text the wrapper's own Error() starts with, else the
// Error() of an enclosing library node differs before and after a network hop.

import "strings"

func stdTextReplay(w *World, o *Obligation, q *Query, _ map[string]string) (string, string) {
	if !strings.HasPrefix(o.Name, "errutil.specialCaseFormat#post.") {
		return "", ""
	}
	both := "false"
	if strings.HasSuffix(o.Name, "#post.5") {
		both = "true" // the source-and-address form has its own obligation
	}
	src := `package errors_test

import (
	"context"
	goerrors "errors"
	"net"
	"os"
	"testing"

	"github.com/cockroachdb/errors"
)

// Replay of obligation ` + o.Name + `
func TestVerifReplay(t *testing.T) {
	src := &net.TCPAddr{IP: net.IPv4(10, 0, 0, 1), Port: 1234}
	dst := &net.TCPAddr{IP: net.IPv4(10, 0, 0, 2), Port: 80}
	inner := goerrors.New("refused")
	var cases []error
	for _, nw := range []string{"", "tcp"} {
		for _, s := range []net.Addr{nil, src} {
			for _, a := range []net.Addr{nil, dst} {
				if (s != nil && a != nil) != ` + both + ` {
					continue
				}
				cases = append(cases, &net.OpError{Op: "dial", Net: nw, Source: s, Addr: a, Err: inner})
			}
		}
	}
	if !` + both + ` {
	cases = append(cases,
		&os.PathError{Op: "open", Path: "/p q", Err: inner},
		&os.LinkError{Op: "link", Old: "/a", New: "/b", Err: inner},
		os.NewSyscallError("read", inner),
	)
	}
	for _, base := range cases {
		// two library layers: the outer one computes its text by formatting the inner one, which
		// reaches the standard-library wrapper through the special-case printer
		e := errors.Wrap(errors.Wrap(base, "inner"), "outer")
		before := e.Error()
		want := "outer: inner: " + base.Error()
		d := errors.DecodeError(context.Background(), errors.EncodeError(context.Background(), e))
		after := d.Error()
		if before != want || before != after {
			t.Fatalf("REPLAY-CONFIRMED: %T %+v: Error() before the hop %q, after the hop %q, composed from the wrapper's own Error() %q", base, base, before, after, want)
		}
	}
}
`
	return ".", src
}

func init() {
	registerReplayFirst(`specialCaseFormat#post\.`, stdTextReplay)
}
