package main

// Replay template for C16 (frame levels): call the function through a chain of non-inlinable
// helpers and compare the recorded first frame / package domain with the expected caller.

import (
	"fmt"
	"go/types"
	"strings"
)

func levelReplay(w *World, o *Obligation, q *Query, _ map[string]string) (string, string) {
	if q.Fn == nil || q.Fn.Pkg == nil || o.Kind != "post" || q.Status != "sat" {
		return "", ""
	}
	isCap := strings.Contains(o.Text, "$cap")
	isDom := strings.Contains(o.Text, "$dom")
	if !isCap && !isDom {
		return "", ""
	}
	fn := q.Fn
	if fn.Signature.Recv() != nil || !fn.Object().Exported() {
		return "", ""
	}
	m := ParseModel(q.Output)
	home := fn.Pkg.Pkg
	// the test lives in another directory than the function under test: package report_test style
	testPkgRel := "testutils"
	if strings.HasSuffix(home.Path(), "/testutils") {
		testPkgRel = "report"
	}
	depth := int64(0)
	var args []string
	imports := map[string]string{home.Path(): "target"}
	for _, p := range fn.Params {
		c := m.Const("p$" + p.Name())
		switch u := p.Type().Underlying().(type) {
		case *types.Basic:
			switch {
			case u.Info()&types.IsInteger != 0:
				n := int64(0)
				if c != nil {
					if v, ok := sxInt(c); ok {
						n = v
					}
				}
				if p.Name() == "depth" {
					if n < 0 || n > 3 {
						n = n % 4
						if n < 0 {
							n = -n
						}
					}
					depth = n
				}
				args = append(args, fmt.Sprint(n))
			case u.Info()&types.IsString != 0:
				s := "m"
				if c != nil && c.str {
					s = c.atom
				}
				args = append(args, fmt.Sprintf("%q", s))
			default:
				return "", ""
			}
		case *types.Interface:
			if p.Type().String() == "error" {
				args = append(args, "fmt.Errorf(\"boom\")")
			} else {
				return "", ""
			}
		case *types.Slice:
			if p.Type().String() == "[]error" {
				args = append(args, "fmt.Errorf(\"boom\")")
			} else {
				// variadic args: none
			}
		default:
			if p.Type().String() == "google.golang.org/grpc/codes.Code" {
				args = append(args, "2")
			} else {
				return "", ""
			}
		}
	}
	var b strings.Builder
	fmt.Fprintf(&b, "package %s\n\nimport (\n\t\"fmt\"\n\t\"path/filepath\"\n\t\"runtime\"\n\t\"strings\"\n\t\"testing\"\n\n\troot \"github.com/cockroachdb/errors\"\n", testPkgName(testPkgRel))
	for path, name := range imports {
		if path == w.ModPath {
			continue
		}
		fmt.Fprintf(&b, "\t%s %q\n", name, path)
	}
	b.WriteString(")\n\n")
	tq := "target."
	if home.Path() == w.ModPath {
		tq = "root."
	}
	fmt.Fprintf(&b, "// Replay of obligation %s\n// %s\n", o.Name, o.Text)
	res := "error"
	if isDom && fn.Signature.Results().Len() == 1 && !isIface(fn.Signature.Results().At(0).Type()) {
		res = "interface{}"
	}
	fmt.Fprintf(&b, "//go:noinline\nfunc verifHelper0() %s { return %s%s(%s) }\n", res, tq, fn.Name(), strings.Join(args, ", "))
	for i := int64(1); i <= depth; i++ {
		fmt.Fprintf(&b, "//go:noinline\nfunc verifHelper%d() %s { r := verifHelper%d(); return r }\n", i, res, i-1)
	}
	fmt.Fprintf(&b, "\nfunc TestVerifReplay(t *testing.T) {\n\tr := verifHelper%d()\n", depth)
	fmt.Fprintf(&b, "\twantFn := \"verifHelper%d\"\n", depth)
	b.WriteString("\t_, thisFile, _, _ := runtime.Caller(0)\n\t_ = thisFile\n")
	if isCap {
		b.WriteString("\terr, _ := r.(error)\n\tif err == nil {\n\t\tt.Skip(\"no error returned\")\n\t}\n")
		b.WriteString("\t_, _, fn, ok := root.GetOneLineSource(err)\n\tif !ok {\n\t\tt.Fatalf(\"REPLAY-CONFIRMED: no stack recorded\")\n\t}\n")
		b.WriteString("\tif !strings.HasSuffix(fn, wantFn) {\n\t\tt.Fatalf(\"REPLAY-CONFIRMED: first recorded frame is %q, expected the caller %q\", fn, wantFn)\n\t}\n")
	} else {
		b.WriteString("\twant := \"error domain: pkg \" + filepath.Dir(thisFile)\n")
		b.WriteString("\tvar got string\n\tif e, ok := r.(error); ok {\n\t\tgot = string(root.GetDomain(e))\n\t} else {\n\t\tgot = fmt.Sprint(r)\n\t}\n")
		b.WriteString("\tif got != want {\n\t\tt.Fatalf(\"REPLAY-CONFIRMED: domain is %q, expected the caller's package %q\", got, want)\n\t}\n")
	}
	b.WriteString("\t_ = filepath.Dir\n\t_ = fmt.Sprint\n\t_ = strings.HasSuffix\n\t_ = wantFn\n}\n")
	return testPkgRel, b.String()
}

func testPkgName(rel string) string {
	if i := strings.LastIndex(rel, "/"); i >= 0 {
		return rel[i+1:] + "_test"
	}
	return rel + "_test"
}

func init() {
	registerReplayFirst(`#post\.`, levelReplay)
}
