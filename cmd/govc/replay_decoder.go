package main

// Replay template for the decoder sweep (C05): craft an EncodedError that routes to the decoder
// under check with the payload / details of the counterexample, decode it with the real
// DecodeError and exercise the result.

import (
	"fmt"
	"go/types"
	"strings"
)

func decoderReplay(w *World, o *Obligation, q *Query, _ map[string]string) (string, string) {
	if q.Fn == nil || q.Status != "sat" {
		return "", ""
	}
	var site *regSite
	for _, rs := range w.registrationSites() {
		rs := rs
		if rs.Fn == q.Fn && strings.Contains(rs.Kind, "Decoder") {
			site = &rs
			break
		}
	}
	if site == nil || site.KeyType == nil || site.In.Pkg == nil {
		return "", ""
	}
	home := site.In.Pkg.Pkg
	m := ParseModel(q.Output)
	g := &goBuilder{w: w, m: m, home: home, imports: map[string]string{}}
	// key expression
	keyExpr := ""
	if p, ok := site.KeyType.(*types.Pointer); ok {
		keyExpr = "(*" + g.typeStr(p.Elem()) + ")(nil)"
	} else {
		return "", ""
	}
	// payload from the model's dynamic type
	payloadExpr := "nil"
	var fnParams = q.Fn.Params
	for _, p := range fnParams {
		if p.Name() != "payload" {
			continue
		}
		c := m.Const("p$payload")
		if args := CtorArgs(c, "mkI"); args != nil {
			if id, ok := sxInt(args[0]); ok && id != 0 {
				t := w.typeByID[int(id)]
				if pt, ok := t.(*types.Pointer); ok && w.LookupMethod(t, "ProtoMessage") != nil && w.LookupMethod(t, "XXX_Unmarshal") != nil {
					payloadExpr = "&" + g.typeStr(pt.Elem()) + "{}"
				} else {
					// an unknown message type: use one that is certainly registered with protobuf
					payloadExpr = "&errorspb.ErrorTypeMark{}"
					g.imports["github.com/cockroachdb/errors/errorspb"] = "errorspb"
				}
			}
		}
	}
	// details
	detailsExpr := "nil"
	for _, p := range fnParams {
		if isSliceT(p.Type()) && p.Type().String() == "[]string" {
			if c := m.Const("p$" + p.Name()); c != nil {
				if v := g.value(c, p.Type(), 0); v != "" {
					detailsExpr = v
				}
			}
		}
	}
	isWrapper := strings.HasPrefix(site.Kind, "Wrapper")
	isMulti := strings.HasPrefix(site.Kind, "MultiCause")
	var b strings.Builder
	fmt.Fprintf(&b, "package %s\n\nimport (\n\t\"context\"\n\t\"fmt\"\n\t\"strings\"\n\t\"testing\"\n\n\t\"github.com/gogo/protobuf/proto\"\n\t\"github.com/gogo/protobuf/types\"\n", home.Name())
	g.imports["github.com/cockroachdb/errors/errorspb"] = "errorspb"
	if home.Name() != "errbase" {
		g.imports["github.com/cockroachdb/errors/errbase"] = "errbase"
	}
	for path, name := range g.imports {
		if path == home.Path() {
			continue
		}
		fmt.Fprintf(&b, "\t%s %q\n", name, path)
	}
	b.WriteString(")\n\n")
	eb := "errbase."
	if home.Name() == "errbase" {
		eb = ""
	}
	fmt.Fprintf(&b, "// Replay of obligation %s\n// %s\n", o.Name, o.Text)
	b.WriteString("func TestVerifReplay(t *testing.T) {\n")
	fmt.Fprintf(&b, "\tkey := string(%sGetTypeKey(%s))\n", eb, keyExpr)
	fmt.Fprintf(&b, "\tvar payload proto.Message = %s\n", payloadExpr)
	b.WriteString("\tvar anyp *types.Any\n\tif payload != nil {\n\t\ta, err := types.MarshalAny(payload)\n\t\tif err != nil {\n\t\t\tt.Skipf(\"cannot marshal payload: %v\", err)\n\t\t}\n\t\tanyp = a\n\t}\n")
	fmt.Fprintf(&b, "\tdetails := errorspb.EncodedErrorDetails{OriginalTypeName: key, ErrorTypeMark: errorspb.ErrorTypeMark{FamilyName: key}, ReportablePayload: %s, FullDetails: anyp}\n", detailsExpr)
	b.WriteString("\tleaf := errorspb.EncodedError{Error: &errorspb.EncodedError_Leaf{Leaf: &errorspb.EncodedErrorLeaf{Message: \"leafmsg\", Details: errorspb.EncodedErrorDetails{OriginalTypeName: \"unknown/leaf\", ErrorTypeMark: errorspb.ErrorTypeMark{FamilyName: \"unknown/leaf\"}}}}}\n")
	switch {
	case isWrapper:
		b.WriteString("\tenc := errorspb.EncodedError{Error: &errorspb.EncodedError_Wrapper{Wrapper: &errorspb.EncodedWrapper{Cause: leaf, Message: \"wrapmsg\", Details: details}}}\n")
	case isMulti:
		b.WriteString("\tenc := errorspb.EncodedError{Error: &errorspb.EncodedError_Leaf{Leaf: &errorspb.EncodedErrorLeaf{Message: \"m\", Details: details, MultierrorCauses: []*errorspb.EncodedError{&leaf}}}}\n")
	default:
		b.WriteString("\t_ = leaf\n\tenc := errorspb.EncodedError{Error: &errorspb.EncodedError_Leaf{Leaf: &errorspb.EncodedErrorLeaf{Message: \"m\", Details: details}}}\n")
	}
	b.WriteString("\tdefer func() {\n\t\tif r := recover(); r != nil {\n\t\t\tt.Fatalf(\"REPLAY-CONFIRMED: panic while decoding / using the decoded error: %v\", r)\n\t\t}\n\t}()\n")
	fmt.Fprintf(&b, "\terr := %sDecodeError(context.Background(), enc)\n", eb)
	b.WriteString("\tif err == nil {\n\t\tt.Fatalf(\"REPLAY-CONFIRMED: DecodeError returned nil\")\n\t}\n")
	b.WriteString("\tt.Logf(\"decoded: %T\", err)\n")
	b.WriteString("\t_ = err.Error()\n\tout := fmt.Sprintf(\"%v|%s|%q|%x\", err, err, err, err) + fmt.Sprintf(\"%+v\", err)\n")
	b.WriteString("\tif i := strings.Index(out, \"(PANIC=\"); i >= 0 {\n\t\tt.Fatalf(\"REPLAY-CONFIRMED: a Format method panicked (recovered by fmt): %s\", out[i:])\n\t}\n")
	fmt.Fprintf(&b, "\t_ = %sGetAllSafeDetails(err)\n\t_ = %sEncodeError(context.Background(), err)\n", eb, eb)
	b.WriteString("}\n")
	rel := strings.TrimPrefix(strings.TrimPrefix(home.Path(), w.ModPath), "/")
	return rel, b.String()
}

func init() {
	registerReplayFirst(`.*`, decoderReplay)
}
