package main

// Loading of /repo into go/ssa, contract database, Go type -> SMT sort mapping.

import (
	"fmt"
	"go/token"
	"go/types"
	"os"
	"path/filepath"
	"regexp"
	"sort"
	"strings"

	"golang.org/x/tools/go/packages"
	"golang.org/x/tools/go/ssa"
	"golang.org/x/tools/go/ssa/ssautil"
)

type World struct {
	RepoDir   string
	VerifDir  string
	ModPath   string
	Fset      *token.FileSet
	Prog      *ssa.Program
	Pkgs      map[string]*ssa.Package   // by import path
	ByName    map[string][]*ssa.Package // by package name
	TPkgs     map[string]*packages.Package
	Contracts map[*ssa.Function]*Contract
	Lemmas    []*Contract
	Externs   map[string]*Contract // key: full function name as printed by ssa (fn.String())
	SpecFuncs map[string]*SpecFunc
	Axioms    []*Axiom
	TypeInvs  map[string][]*TypeInv     // key: types.Type string of the struct's named type
	IfaceMs   map[string][]*IfaceMethod // by method name
	SpecFiles []*SpecFile
	Warnings  []string

	typeIDs         map[string]int
	typeByID        map[int]types.Type
	typeList        []types.Type
	dtDecls         map[string]*dtDecl // datatype declarations by sort name
	dtOrder         []string
	structOf        map[string]*types.Struct
	AllFuncs        map[*ssa.Function]bool
	ContractFileOf  map[string]string // pkg path -> contract file used
	modsCache       map[*ssa.Function]map[string]bool
	heapSorts       map[string]*Sort
	sliceElems      map[string]*Sort
	mcIndex         map[string][]methodSpec
	extraTypeConsts map[string]int
	defIndex        map[string]*definer
	GlobalInvs      []*GlobalInv
	writeSummary    map[string]int
	UsedAxioms      map[string]bool
	allocSummary    map[*ssa.Function]int
	writeCuts       int
	fnByConst       map[string]*ssa.Function
	Aliases         map[string]string
}

type dtDecl struct {
	name string
	decl string
	deps []string
}

func LoadWorld(repoDir, verifDir string) (*World, error) {
	w := &World{RepoDir: repoDir, VerifDir: verifDir,
		Pkgs: map[string]*ssa.Package{}, ByName: map[string][]*ssa.Package{}, TPkgs: map[string]*packages.Package{},
		Contracts: map[*ssa.Function]*Contract{}, Externs: map[string]*Contract{}, SpecFuncs: map[string]*SpecFunc{},
		TypeInvs: map[string][]*TypeInv{}, IfaceMs: map[string][]*IfaceMethod{},
		typeIDs: map[string]int{}, typeByID: map[int]types.Type{}, dtDecls: map[string]*dtDecl{}, structOf: map[string]*types.Struct{},
		ContractFileOf: map[string]string{}, modsCache: map[*ssa.Function]map[string]bool{},
		heapSorts: map[string]*Sort{}, sliceElems: map[string]*Sort{},
	}
	cfg := &packages.Config{
		Mode: packages.NeedName | packages.NeedFiles | packages.NeedCompiledGoFiles | packages.NeedImports |
			packages.NeedTypes | packages.NeedTypesSizes | packages.NeedSyntax | packages.NeedTypesInfo |
			packages.NeedDeps | packages.NeedModule,
		Dir: repoDir,
		Env: append(os.Environ(), "GOFLAGS=-mod=mod", "GOPROXY=off", "GOSUMDB=off", "GOTOOLCHAIN=local"),
	}
	pkgs, err := packages.Load(cfg, "./...", "errors", "github.com/pkg/errors")
	if err != nil {
		return nil, err
	}
	var errs []string
	packages.Visit(pkgs, nil, func(p *packages.Package) {
		for _, e := range p.Errors {
			errs = append(errs, e.Error())
		}
	})
	if len(errs) > 0 {
		return nil, fmt.Errorf("package load errors: %s", strings.Join(errs, "; "))
	}
	for _, p := range pkgs {
		if p.Module != nil && p.Module.Main {
			w.ModPath = p.Module.Path
		}
	}
	prog, _ := ssautil.AllPackages(pkgs, ssa.GlobalDebug|ssa.InstantiateGenerics)
	prog.Build()
	w.Prog = prog
	w.Fset = prog.Fset
	packages.Visit(pkgs, nil, func(p *packages.Package) { w.TPkgs[p.PkgPath] = p })
	for _, sp := range prog.AllPackages() {
		w.Pkgs[sp.Pkg.Path()] = sp
		w.ByName[sp.Pkg.Name()] = append(w.ByName[sp.Pkg.Name()], sp)
	}
	w.AllFuncs = ssautil.AllFunctions(prog)
	return w, nil
}

func (w *World) InModule(p *types.Package) bool {
	return p != nil && (p.Path() == w.ModPath || strings.HasPrefix(p.Path(), w.ModPath+"/"))
}

func (w *World) warnf(format string, a ...interface{}) {
	w.Warnings = append(w.Warnings, fmt.Sprintf(format, a...))
}

// LoadSpecs reads the prelude/lemma files under verifDir/spec and the per-package
// contracts_verif.go files under the repository (mirror: verifDir/contracts/<rel>/contracts_verif.go).
func (w *World) LoadSpecs() error {
	var files []string
	specDir := filepath.Join(w.VerifDir, "spec")
	filepath.Walk(specDir, func(p string, info os.FileInfo, err error) error {
		if err == nil && !info.IsDir() && strings.HasSuffix(p, ".spec") {
			files = append(files, p)
		}
		return nil
	})
	sort.Strings(files)
	// prelude first
	sort.SliceStable(files, func(i, j int) bool {
		pi := strings.Contains(filepath.Base(files[i]), "prelude")
		pj := strings.Contains(filepath.Base(files[j]), "prelude")
		return pi && !pj
	})
	for _, f := range files {
		sf, err := ParseSpecFile(f, false)
		if err != nil {
			return err
		}
		w.SpecFiles = append(w.SpecFiles, sf)
	}
	// contract files in the repository
	var paths []string
	for path := range w.Pkgs {
		paths = append(paths, path)
	}
	sort.Strings(paths)
	for _, path := range paths {
		sp := w.Pkgs[path]
		if !w.InModule(sp.Pkg) {
			continue
		}
		rel := strings.TrimPrefix(strings.TrimPrefix(path, w.ModPath), "/")
		cf := filepath.Join(w.RepoDir, rel, "contracts_verif.go")
		if _, err := os.Stat(cf); err != nil {
			mf := filepath.Join(w.VerifDir, "contracts", rel, "contracts_verif.go")
			if _, err2 := os.Stat(mf); err2 == nil {
				w.warnf("contract file missing in tree for %s, using mirror %s", path, mf)
				cf = mf
			} else {
				continue
			}
		}
		sf, err := ParseSpecFile(cf, true)
		if err != nil {
			return err
		}
		sf.PkgName = sp.Pkg.Name()
		for _, c := range sf.Contracts {
			if c.PkgName == "" || c.PkgName == sf.PkgName {
				c.PkgName = sf.PkgName
				c.Pkg = path
			}
		}
		for _, f := range sf.Funcs {
			f.PkgName = sf.PkgName
		}
		for _, a := range sf.Axioms {
			a.PkgName = sf.PkgName
		}
		for _, ti := range sf.TypeInvs {
			ti.PkgName = sf.PkgName
		}
		w.ContractFileOf[path] = cf
		w.SpecFiles = append(w.SpecFiles, sf)
	}
	// index
	w.Aliases = map[string]string{}
	for _, sf := range w.SpecFiles {
		for a, p := range sf.Imports {
			w.Aliases[a] = p
		}
	}
	for _, sf := range w.SpecFiles {
		for _, f := range sf.Funcs {
			if _, dup := w.SpecFuncs[f.Name]; dup {
				return fmt.Errorf("%s:%d: duplicate spec func %s", f.File, f.Line, f.Name)
			}
			w.SpecFuncs[f.Name] = f
		}
		w.Axioms = append(w.Axioms, sf.Axioms...)
		for _, gi := range sf.GlobalInvs {
			if gi.PkgName == "" {
				gi.PkgName = sf.PkgName
			}
			w.GlobalInvs = append(w.GlobalInvs, gi)
		}
		for _, im := range sf.IfaceMs {
			w.IfaceMs[im.Method] = append(w.IfaceMs[im.Method], im)
		}
	}
	for _, sf := range w.SpecFiles {
		for _, ti := range sf.TypeInvs {
			ty, err := w.ResolveType(ti.Type, ti.PkgName)
			if err != nil {
				w.warnf("%s:%d: type invariant: %v", ti.File, ti.Line, err)
				continue
			}
			w.TypeInvs[ty.G.String()] = append(w.TypeInvs[ty.G.String()], ti)
		}
		for _, c := range sf.Contracts {
			switch c.Kind {
			case "lemma":
				w.Lemmas = append(w.Lemmas, c)
			case "func", "method":
				fn, err := w.ResolveFunc(c)
				if err != nil {
					w.warnf("%s:%d: contract drift: %v", c.File, c.Line, err)
					continue
				}
				if old, dup := w.Contracts[fn]; dup {
					return fmt.Errorf("%s:%d: duplicate contract for %s (also %s:%d)", c.File, c.Line, fn, old.File, old.Line)
				}
				w.Contracts[fn] = c
			case "extern-func":
				w.Externs[c.Pkg+"."+c.Name] = c
			case "extern-method":
				ty, err := w.ResolveType(c.Recv, c.PkgName)
				if err != nil {
					w.warnf("%s:%d: extern method: %v", c.File, c.Line, err)
					continue
				}
				w.Externs["("+ty.G.String()+")."+c.Name] = c
			}
		}
	}
	return nil
}

func (w *World) pkgByNameOne(name string) *ssa.Package {
	if strings.HasPrefix(name, "std:") {
		return w.Pkgs[strings.TrimPrefix(name, "std:")]
	}
	ps := w.ByName[name]
	// prefer module packages
	var best *ssa.Package
	for _, p := range ps {
		if w.InModule(p.Pkg) {
			if best == nil || len(p.Pkg.Path()) < len(best.Pkg.Path()) {
				best = p
			}
		}
	}
	if best != nil {
		return best
	}
	// otherwise shortest path (std lib first)
	for _, p := range ps {
		if best == nil || len(p.Pkg.Path()) < len(best.Pkg.Path()) {
			best = p
		}
	}
	return best
}

// ResolveFunc maps a func/method contract header to the ssa function.
func (w *World) ResolveFunc(c *Contract) (*ssa.Function, error) {
	var sp *ssa.Package
	if strings.HasPrefix(c.PkgName, "std:") {
		// a package outside the module, by import path
		sp = w.Pkgs[strings.TrimPrefix(c.PkgName, "std:")]
		if sp == nil {
			return nil, fmt.Errorf("package %q not loaded", c.PkgName)
		}
		c.Pkg = sp.Pkg.Path()
	}
	if sp == nil && c.Pkg != "" {
		sp = w.Pkgs[c.Pkg]
	}
	if sp == nil {
		sp = w.pkgByNameOne(c.PkgName)
	}
	if sp == nil {
		return nil, fmt.Errorf("package %q not found", c.PkgName)
	}
	c.Pkg = sp.Pkg.Path()
	if c.Kind == "func" {
		name := c.Name
		// closures: Func$1
		if strings.Contains(name, "$") {
			parts := strings.Split(name, "$")
			fn := sp.Func(parts[0])
			if fn == nil {
				return nil, fmt.Errorf("function %s.%s not found", sp.Pkg.Path(), parts[0])
			}
			for _, af := range fn.AnonFuncs {
				if af.Name() == name {
					return af, nil
				}
			}
			return nil, fmt.Errorf("closure %s not found", name)
		}
		fn := sp.Func(name)
		if fn == nil {
			return nil, fmt.Errorf("function %s.%s not found", sp.Pkg.Path(), name)
		}
		return fn, nil
	}
	ty, err := w.ResolveType(c.Recv, sp.Pkg.Name())
	if err != nil {
		return nil, err
	}
	fn := w.LookupMethod(ty.G, c.Name)
	if fn == nil {
		return nil, fmt.Errorf("method (%s).%s not found", ty.G, c.Name)
	}
	return fn, nil
}

func (w *World) LookupMethod(t types.Type, name string) *ssa.Function {
	ms := w.Prog.MethodSets.MethodSet(t)
	for i := 0; i < ms.Len(); i++ {
		sel := ms.At(i)
		if sel.Obj().Name() == name {
			return w.Prog.MethodValue(sel)
		}
	}
	return nil
}

// ---------------- spec types ----------------

// SType is the type of a spec expression: a Go type, or a spec-only type.
type SType struct {
	G      types.Type
	Set    *SType // set[Elem]
	TypeID bool   // dynamic type identifier
	MapVal bool   // G is a map type, value is the map *content*
}

func (s SType) String() string {
	if s.TypeID {
		return "Type"
	}
	if s.Set != nil {
		return "set[" + s.Set.String() + "]"
	}
	if s.G == nil {
		return "<nil>"
	}
	return s.G.String()
}

var universeTypes = map[string]types.Type{
	"int": types.Typ[types.Int], "bool": types.Typ[types.Bool], "string": types.Typ[types.String],
	"int64": types.Typ[types.Int64], "int32": types.Typ[types.Int32], "uint32": types.Typ[types.Uint32],
	"uint64": types.Typ[types.Uint64], "uintptr": types.Typ[types.Uintptr], "rune": types.Typ[types.Int32], "byte": types.Typ[types.Uint8],
	"error": types.Universe.Lookup("error").Type(),
	"any":   types.NewInterfaceType(nil, nil),
}

func (w *World) ResolveType(te *TypeExpr, pkgName string) (SType, error) {
	switch te.Kind {
	case "ptr":
		e, err := w.ResolveType(te.Elem, pkgName)
		if err != nil {
			return SType{}, err
		}
		return SType{G: types.NewPointer(e.G)}, nil
	case "slice":
		e, err := w.ResolveType(te.Elem, pkgName)
		if err != nil {
			return SType{}, err
		}
		return SType{G: types.NewSlice(e.G)}, nil
	case "map":
		k, err := w.ResolveType(te.Key, pkgName)
		if err != nil {
			return SType{}, err
		}
		e, err := w.ResolveType(te.Elem, pkgName)
		if err != nil {
			return SType{}, err
		}
		return SType{G: types.NewMap(k.G, e.G), MapVal: true}, nil
	case "set":
		e, err := w.ResolveType(te.Elem, pkgName)
		if err != nil {
			return SType{}, err
		}
		return SType{Set: &e}, nil
	case "func":
		var ps, rs []*types.Var
		for _, p := range te.Params {
			pt, err := w.ResolveType(p, pkgName)
			if err != nil {
				return SType{}, err
			}
			ps = append(ps, types.NewVar(0, nil, "", pt.G))
		}
		for _, r := range te.Results {
			rt, err := w.ResolveType(r, pkgName)
			if err != nil {
				return SType{}, err
			}
			rs = append(rs, types.NewVar(0, nil, "", rt.G))
		}
		return SType{G: types.NewSignatureType(nil, nil, nil, types.NewTuple(ps...), types.NewTuple(rs...), false)}, nil
	case "name":
		if te.Pkg == "" {
			if te.Name == "Type" {
				return SType{TypeID: true}, nil
			}
			if t, ok := universeTypes[te.Name]; ok {
				return SType{G: t}, nil
			}
			if sp := w.pkgByNameOne(pkgName); sp != nil {
				if o := sp.Pkg.Scope().Lookup(te.Name); o != nil {
					if tn, ok := o.(*types.TypeName); ok {
						return SType{G: types.Unalias(tn.Type())}, nil
					}
				}
			}
			return SType{}, fmt.Errorf("type %s not found in package %s", te.Name, pkgName)
		}
		var cands []*ssa.Package
		if path, ok := w.Aliases[te.Pkg]; ok && w.Pkgs[path] != nil {
			cands = []*ssa.Package{w.Pkgs[path]}
		} else if sp, ok := w.Pkgs[te.Pkg]; ok {
			cands = []*ssa.Package{sp}
		} else {
			// prefer what the contract's package imports under that name
			if home := w.pkgByNameOne(pkgName); home != nil {
				for _, imp := range home.Pkg.Imports() {
					if imp.Name() == te.Pkg {
						if sp := w.Pkgs[imp.Path()]; sp != nil {
							cands = append(cands, sp)
						}
					}
				}
			}
			if len(cands) == 0 {
				if sp := w.pkgByNameOne(te.Pkg); sp != nil {
					cands = []*ssa.Package{sp}
				}
			}
		}
		for _, sp := range cands {
			if o := sp.Pkg.Scope().Lookup(te.Name); o != nil {
				if tn, ok := o.(*types.TypeName); ok {
					return SType{G: types.Unalias(tn.Type())}, nil
				}
			}
		}
		return SType{}, fmt.Errorf("type %s.%s not found", te.Pkg, te.Name)
	}
	return SType{}, fmt.Errorf("unsupported type expression %s", te)
}

// ---------------- type identifiers ----------------

func (w *World) TypeID(t types.Type) int {
	t = deepUnalias(t)
	k := canonBasic(t.String())
	if id, ok := w.typeIDs[k]; ok {
		return id
	}
	id := len(w.typeIDs) + 1
	w.typeIDs[k] = id
	w.typeByID[id] = t
	w.typeList = append(w.typeList, t)
	return id
}

func typeConstName(t types.Type) string {
	return "T$" + mangle(t.String())
}

func mangle(s string) string {
	var b strings.Builder
	for _, r := range s {
		switch {
		case r >= 'a' && r <= 'z', r >= 'A' && r <= 'Z', r >= '0' && r <= '9', r == '_':
			b.WriteRune(r)
		case r == '*':
			b.WriteString("P_")
		case r == '/':
			b.WriteString("_")
		case r == '.':
			b.WriteString(".")
		case r == '[':
			b.WriteString("L")
		case r == ']':
			b.WriteString("R")
		default:
			b.WriteString("_")
		}
	}
	return b.String()
}

// deepUnalias removes type aliases at any depth of pointer/slice/array/map structure.
func deepUnalias(t types.Type) types.Type {
	switch u := t.(type) {
	case *types.Alias:
		return deepUnalias(types.Unalias(u))
	case *types.Pointer:
		e := deepUnalias(u.Elem())
		if e != u.Elem() {
			return types.NewPointer(e)
		}
	case *types.Slice:
		e := deepUnalias(u.Elem())
		if e != u.Elem() {
			return types.NewSlice(e)
		}
	case *types.Array:
		e := deepUnalias(u.Elem())
		if e != u.Elem() {
			return types.NewArray(e, u.Len())
		}
	case *types.Map:
		k, e := deepUnalias(u.Key()), deepUnalias(u.Elem())
		if k != u.Key() || e != u.Elem() {
			return types.NewMap(k, e)
		}
	}
	return t
}

// shortType strips the module path from a type string for readable names.
// canonBasic: byte and rune are aliases of uint8 and int32 (identical types, different spelling)
var canonBasicRe = regexp.MustCompile(`(^|[^A-Za-z0-9_.])(byte|rune)($|[^A-Za-z0-9_])`)

var canonBasicCache = map[string]string{}

func canonBasic(s string) string {
	if !strings.Contains(s, "byte") && !strings.Contains(s, "rune") {
		return s
	}
	if r, ok := canonBasicCache[s]; ok {
		return r
	}
	in := s
	for i := 0; i < 3; i++ {
		s = canonBasicRe.ReplaceAllStringFunc(s, func(m string) string {
			m = strings.Replace(m, "byte", "uint8", 1)
			return strings.Replace(m, "rune", "int32", 1)
		})
	}
	canonBasicCache[in] = s
	return s
}

func (w *World) shortType(t types.Type) string {
	t = deepUnalias(t)
	s := canonBasic(t.String())
	s = strings.ReplaceAll(s, w.ModPath+"/", "")
	s = strings.ReplaceAll(s, "github.com/", "")
	return s
}

// TypeConst returns the SMT term denoting the dynamic type t.
func (w *World) TypeConst(t types.Type) *T {
	id := w.TypeID(t)
	_ = id
	return App("T$"+mangle(w.shortType(t)), SInt)
}

// ---------------- sorts ----------------

func (w *World) SortOf(t types.Type) *Sort {
	t = deepUnalias(t)
	switch u := t.(type) {
	case *types.Named:
		if st, ok := u.Underlying().(*types.Struct); ok {
			return w.structSort(w.shortType(u), st)
		}
		return w.SortOf(u.Underlying())
	case *types.Alias:
		return w.SortOf(types.Unalias(u))
	case *types.Basic:
		switch {
		case u.Info()&types.IsInteger != 0:
			return SInt
		case u.Info()&types.IsBoolean != 0:
			return SBool
		case u.Info()&types.IsString != 0:
			return SString
		case u.Kind() == types.UnsafePointer:
			return SRef
		case u.Kind() == types.UntypedNil:
			return SRef
		case u.Info()&types.IsFloat != 0:
			return w.opaqueSort("Float")
		}
		return w.opaqueSort("Basic_" + u.Name())
	case *types.Pointer:
		return SRef
	case *types.Interface:
		return SIface
	case *types.Slice:
		return w.sliceSort(w.SortOf(u.Elem()))
	case *types.Array:
		return ArraySort(SInt, w.SortOf(u.Elem()))
	case *types.Map:
		return SRef
	case *types.Chan:
		return SRef
	case *types.Signature:
		return SFn
	case *types.Struct:
		return w.structSort("anon$"+mangle(u.String()), u)
	case *types.Tuple:
		return SUnit
	case *types.TypeParam:
		return w.opaqueSort("TypeParam")
	}
	return w.opaqueSort("Unknown")
}

func (w *World) opaqueSort(name string) *Sort {
	n := "Opq$" + name
	if _, ok := w.dtDecls[n]; !ok {
		w.dtDecls[n] = &dtDecl{name: n, decl: "(declare-sort " + n + " 0)"}
		w.dtOrder = append(w.dtOrder, n)
	}
	return &Sort{Name: n}
}

func (w *World) structSort(name string, st *types.Struct) *Sort {
	n := "S$" + mangle(name)
	if _, ok := w.dtDecls[n]; ok {
		return &Sort{Name: n}
	}
	d := &dtDecl{name: n}
	w.dtDecls[n] = d // break cycles
	w.structOf[n] = st
	var b strings.Builder
	fmt.Fprintf(&b, "(declare-datatypes ((%s 0)) (((mk$%s", n, n)
	for i := 0; i < st.NumFields(); i++ {
		fs := w.SortOf(st.Field(i).Type())
		d.deps = append(d.deps, sortDeps(fs)...)
		fmt.Fprintf(&b, " (%s %s)", fieldSel(n, st, i), fs)
	}
	b.WriteString("))))")
	d.decl = b.String()
	w.dtOrder = append(w.dtOrder, n)
	return &Sort{Name: n}
}

func fieldSel(sortName string, st *types.Struct, i int) string {
	return sortName + "." + st.Field(i).Name()
}

func sortDeps(s *Sort) []string {
	if s.Name == "Array" {
		return append(sortDeps(s.Args[0]), sortDeps(s.Args[1])...)
	}
	switch s.Name {
	case "Int", "Bool", "String", "Ref", "Fn", "Iface", "Unit":
		return nil
	}
	return []string{s.Name}
}

func (w *World) sliceSort(elem *Sort) *Sort {
	n := "Slice$" + elem.Mangle()
	if _, ok := w.dtDecls[n]; !ok {
		d := &dtDecl{name: n, deps: sortDeps(elem)}
		d.decl = fmt.Sprintf("(declare-datatypes ((%s 0)) (((mk$%s (arr$%s (Array Int %s)) (len$%s Int) (isnil$%s Bool)))))", n, n, n, elem, n, n)
		w.dtDecls[n] = d
		w.dtOrder = append(w.dtOrder, n)
		w.sliceElems[n] = elem
	}
	return &Sort{Name: n, Args: nil}
}

func (w *World) sliceElemSort(s *Sort) *Sort {
	// parse back from the declaration: keep a side table
	return w.sliceElems[s.Name]
}

func (w *World) mapValSort(k, v *Sort) *Sort {
	n := "Map$" + k.Mangle() + "$" + v.Mangle()
	if _, ok := w.dtDecls[n]; !ok {
		d := &dtDecl{name: n, deps: append(sortDeps(k), sortDeps(v)...)}
		d.decl = fmt.Sprintf("(declare-datatypes ((%s 0)) (((mk$%s (has$%s (Array %s Bool)) (get$%s (Array %s %s))))))", n, n, n, k, n, k, v)
		w.dtDecls[n] = d
		w.dtOrder = append(w.dtOrder, n)
	}
	return &Sort{Name: n}
}

// slice helpers
func (w *World) SliceArr(s *T, elem *Sort) *T {
	if s.Kind == kApp && strings.HasPrefix(s.Op, "mk$Slice$") {
		return s.Args[0]
	}
	return App("arr$"+s.S.Name, ArraySort(SInt, elem), s)
}
func (w *World) SliceLen(s *T) *T {
	if s.Kind == kApp && strings.HasPrefix(s.Op, "mk$Slice$") {
		return s.Args[1]
	}
	return App("len$"+s.S.Name, SInt, s)
}
func (w *World) SliceIsNil(s *T) *T {
	if s.Kind == kApp && strings.HasPrefix(s.Op, "mk$Slice$") {
		return s.Args[2]
	}
	return App("isnil$"+s.S.Name, SBool, s)
}
func (w *World) MkSlice(elem *Sort, arr, ln, isnil *T) *T {
	ss := w.sliceSort(elem)
	return App("mk$"+ss.Name, ss, arr, ln, isnil)
}

// struct helpers
func (w *World) StructGet(sv *T, st *types.Struct, i int) *T {
	if sv.Kind == kApp && sv.Op == "mk$"+sv.S.Name {
		return sv.Args[i]
	}
	return App(fieldSel(sv.S.Name, st, i), w.SortOf(st.Field(i).Type()), sv)
}
func (w *World) StructSet(sv *T, st *types.Struct, i int, v *T) *T {
	args := make([]*T, st.NumFields())
	for j := 0; j < st.NumFields(); j++ {
		if j == i {
			args[j] = v
		} else {
			args[j] = w.StructGet(sv, st, j)
		}
	}
	return App("mk$"+sv.S.Name, sv.S, args...)
}

// ZeroValue of a Go type as SMT term.
func (w *World) Zero(t types.Type) *T {
	switch u := t.Underlying().(type) {
	case *types.Basic:
		switch {
		case u.Info()&types.IsInteger != 0:
			return IntLit(0)
		case u.Info()&types.IsBoolean != 0:
			return tFalse
		case u.Info()&types.IsString != 0:
			return StrLit("")
		}
		return App("zero$"+w.SortOf(t).Mangle(), w.SortOf(t))
	case *types.Pointer, *types.Map, *types.Chan:
		return NilRef
	case *types.Interface:
		return NilIface
	case *types.Signature:
		return App("nil$Fn", SFn)
	case *types.Slice:
		es := w.SortOf(u.Elem())
		return w.MkSlice(es, App("zeroarr$"+es.Mangle(), ArraySort(SInt, es)), IntLit(0), tTrue)
	case *types.Array:
		es := w.SortOf(u.Elem())
		return App("as-const$"+es.Mangle(), ArraySort(SInt, es), w.Zero(u.Elem()))
	case *types.Struct:
		s := w.SortOf(t)
		args := make([]*T, u.NumFields())
		for i := range args {
			args[i] = w.Zero(u.Field(i).Type())
		}
		return App("mk$"+s.Name, s, args...)
	}
	return App("zero$"+w.SortOf(t).Mangle(), w.SortOf(t))
}

var NilRef = App("nil$Ref", SRef)
var NilIface = App("mkI", SIface, IntLit(0), NilRef)

func Dyn(e *T) *T {
	if e.Kind == kApp && e.Op == "mkI" {
		return e.Args[0]
	}
	return App("dyn", SInt, e)
}
func ValOf(e *T) *T {
	if e.Kind == kApp && e.Op == "mkI" {
		return e.Args[1]
	}
	return App("val", SRef, e)
}
func MkIface(dyn, val *T) *T { return App("mkI", SIface, dyn, val) }
func IfaceIsNil(e *T) *T     { return Eq(Dyn(e), IntLit(0)) }

// IfaceEq is Go's == on interface values (when it does not panic). Every ground interface-sorted
// term is constrained to be well-formed (dyn == 0 ==> the nil interface, see BuildSMT), so Go
// equality coincides with SMT equality.
func IfaceEq(a, b *T) *T {
	return Eq(a, b)
}
