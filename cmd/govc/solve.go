package main

// Solver race: z3-new, z3 (4.8.12), cvc5.

import (
	"bytes"
	"context"
	"crypto/sha256"
	"encoding/hex"
	"fmt"
	"os"
	"os/exec"
	"path/filepath"
	"strings"
	"sync"
	"time"
)

type SolverCfg struct {
	Dir       string
	FirstMs   int // z3-new budget
	SecondMs  int // parallel z3 / cvc5 budget
	Workers   int
	KeepFiles bool
}

type solverResult struct {
	status string
	solver string
	ms     int64
	output string
}

func runSolver(name string, args []string, file string, timeoutMs int) solverResult {
	ctx, cancel := context.WithTimeout(context.Background(), time.Duration(timeoutMs+1500)*time.Millisecond)
	defer cancel()
	t0 := time.Now()
	cmd := exec.CommandContext(ctx, name, append(args, file)...)
	var out bytes.Buffer
	cmd.Stdout = &out
	cmd.Stderr = &out
	cmd.Run()
	ms := time.Since(t0).Milliseconds()
	text := out.String()
	first := strings.TrimSpace(strings.SplitN(text, "\n", 2)[0])
	st := "error"
	switch first {
	case "unsat":
		st = "unsat"
	case "sat":
		st = "sat"
	case "unknown":
		st = "unknown"
	case "timeout":
		st = "timeout"
	default:
		if ctx.Err() != nil || strings.Contains(text, "timeout") {
			st = "timeout"
		}
	}
	return solverResult{status: st, solver: name, ms: ms, output: text}
}

var solveCache sync.Map
var solveFlight sync.Map // key -> *sync.Mutex (identical queries are solved once)

// Solve runs the race for one query text. Only z3 variants are asked for a model.
func Solve(cfg *SolverCfg, smt string, wantModel bool) solverResult {
	return solveWith(cfg, smt, wantModel, false)
}

// SolveLite: one short z3-new attempt on the reduced query; only "unsat" is used.
func SolveLite(cfg *SolverCfg, smt string) solverResult {
	h := sha256.Sum256([]byte(smt))
	key := hex.EncodeToString(h[:12])
	if r, ok := solveCache.Load("lite" + key); ok {
		return r.(solverResult)
	}
	file := filepath.Join(cfg.Dir, "lite"+key+".smt2")
	os.WriteFile(file, []byte(smt), 0o644)
	defer os.Remove(file)
	r := runSolver("z3-new", []string{"-T:3", "-t:2500"}, file, 2500)
	solveCache.Store("lite"+key, r)
	return r
}

// SolveCanary: a vacuity canary only needs "not unsat"; one short attempt is enough.
func SolveCanary(cfg *SolverCfg, smt string) solverResult {
	return solveWith(cfg, smt, false, true)
}

func solveWith(cfg *SolverCfg, smt string, wantModel bool, canary bool) solverResult {
	h := sha256.Sum256([]byte(smt))
	key := hex.EncodeToString(h[:12])
	if r, ok := solveCache.Load(key); ok {
		return r.(solverResult)
	}
	mu, _ := solveFlight.LoadOrStore(key, &sync.Mutex{})
	mu.(*sync.Mutex).Lock()
	defer mu.(*sync.Mutex).Unlock()
	if r, ok := solveCache.Load(key); ok {
		return r.(solverResult)
	}
	file := filepath.Join(cfg.Dir, key+".smt2")
	body := smt
	if wantModel {
		body += "(get-model)\n"
	}
	os.WriteFile(file, []byte(body), 0o644)
	defer func() {
		if !cfg.KeepFiles {
			os.Remove(file)
		}
	}()
	first := cfg.FirstMs
	if canary && first > 1500 {
		first = 1500
	}
	r := runSolver("z3-new", []string{fmt.Sprintf("-T:%d", (first+999)/1000), fmt.Sprintf("-t:%d", first)}, file, first)
	if r.status == "unsat" || r.status == "sat" {
		solveCache.Store(key, r)
		return r
	}
	if canary {
		// a canary is vacuous if ANY solver refutes the assumptions: ask the other two briefly
		ch := make(chan solverResult, 2)
		go func() { ch <- runSolver("z3", []string{"-T:2", "-t:1500"}, file, 1500) }()
		cfile := filepath.Join(cfg.Dir, key+".cvc5.smt2")
		os.WriteFile(cfile, []byte(smt), 0o644)
		go func() { ch <- runSolver("cvc5", []string{"--tlimit=1500", "--strings-exp"}, cfile, 1500) }()
		for i := 0; i < 2; i++ {
			if x := <-ch; x.status == "unsat" {
				r = x
			}
		}
		os.Remove(cfile)
		solveCache.Store(key, r)
		return r
	}
	// second line: z3 4.8.12 and cvc5 in parallel
	ch := make(chan solverResult, 2)
	go func() {
		ch <- runSolver("z3", []string{fmt.Sprintf("-T:%d", (cfg.SecondMs+999)/1000), fmt.Sprintf("-t:%d", cfg.SecondMs)}, file, cfg.SecondMs)
	}()
	cfile := filepath.Join(cfg.Dir, key+".cvc5.smt2")
	os.WriteFile(cfile, []byte(smt), 0o644)
	defer os.Remove(cfile)
	go func() {
		ch <- runSolver("cvc5", []string{fmt.Sprintf("--tlimit=%d", cfg.SecondMs), "--strings-exp"}, cfile, cfg.SecondMs)
	}()
	best := r
	for i := 0; i < 2; i++ {
		x := <-ch
		if x.status == "unsat" {
			best = x
			break
		}
		if x.status == "sat" && best.status != "sat" {
			// cvc5 "sat" on quantified problems is trustworthy too, but has no model text here
			best = x
		}
	}
	best.ms += r.ms
	if best.status != "error" {
		solveCache.Store(key, best)
	}
	return best
}
