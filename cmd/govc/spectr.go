package main

// Translation of spec expressions to SMT terms in a symbolic state.

import (
	"fmt"
	"go/constant"
	"go/token"
	"go/types"
	"sort"
	"strconv"
	"strings"

	"golang.org/x/tools/go/ssa"
)

type SV struct {
	Ptr   *Loc // pointer to a not-yet-escaped local object (kept symbolic)
	T     *T
	Ty    SType
	IsNil bool // untyped nil
	IsPkg string
}

type Env struct {
	ex       *Ex
	fr       *Frame
	st       *State
	old      *State
	vars     map[string]SV
	pkgName  string
	results  []SV
	resNames []string
	depth    int
}

func (ex *Ex) newEnv(fr *Frame, st *State) *Env {
	env := &Env{ex: ex, fr: fr, st: st, vars: map[string]SV{}}
	if fr != nil {
		env.old = fr.Entry
		if fr.Ctr != nil {
			env.pkgName = fr.Ctr.PkgName
		} else if fr.Fn != nil && fr.Fn.Pkg != nil {
			env.pkgName = fr.Fn.Pkg.Pkg.Name()
		}
	}
	return env
}

func (env *Env) child() *Env {
	n := *env
	n.vars = make(map[string]SV, len(env.vars)+2)
	for k, v := range env.vars {
		n.vars[k] = v
	}
	return &n
}

func (env *Env) errf(e *Expr, format string, a ...interface{}) error {
	return fmt.Errorf("%s:%d: %s (in %s)", e.File, e.Line, fmt.Sprintf(format, a...), e.String())
}

func (ex *Ex) trBool(env *Env, e *Expr) (*T, error) {
	v, err := ex.tr(env, e)
	if err != nil {
		return nil, err
	}
	if v.T == nil || !v.T.S.Eq(SBool) {
		return nil, env.errf(e, "expected boolean expression, got %s", v.Ty)
	}
	return v.T, nil
}

var tInt = SType{G: types.Typ[types.Int]}
var tBool = SType{G: types.Typ[types.Bool]}
var tString = SType{G: types.Typ[types.String]}
var tError = SType{G: types.Universe.Lookup("error").Type()}

func (ex *Ex) sortOfS(t SType) *Sort {
	w := ex.W
	switch {
	case t.TypeID:
		return SInt
	case t.Set != nil:
		return ArraySort(ex.sortOfS(*t.Set), SBool)
	case t.MapVal:
		mt := t.G.Underlying().(*types.Map)
		return w.mapValSort(w.SortOf(mt.Key()), w.SortOf(mt.Elem()))
	}
	return w.SortOf(t.G)
}

// lookupIdent resolves a name in the function / lemma context.
func (ex *Ex) lookupIdent(env *Env, name string) (SV, bool) {
	if v, ok := env.vars[name]; ok {
		return v, true
	}
	st := env.st
	if v, ok := st.ghost[name]; ok {
		return v, true
	}
	fr := env.fr
	w := ex.W
	if name == "lvl" && fr != nil && fr.Lvl != nil {
		return SV{T: fr.Lvl, Ty: tInt}, true
	}
	if name == "$n" && fr != nil && fr.CurLoop != nil {
		for _, ins := range fr.CurLoop.Header.Instrs {
			if phi, ok := ins.(*ssa.Phi); ok && phi.Comment == "rangeindex" {
				if v, ok := st.regs[phi]; ok && v.T != nil {
					return SV{T: Add(v.T, IntLit(1)), Ty: tInt}, true
				}
			}
		}
	}
	if name == "$range" && fr != nil && fr.CurLoop != nil {
		// the slice the current range loop iterates over (its value is fixed before the loop)
		for _, ins := range fr.CurLoop.Header.Instrs {
			bo, ok := ins.(*ssa.BinOp)
			if !ok || bo.Op != token.LSS {
				continue
			}
			lc, ok := bo.Y.(*ssa.Call)
			if !ok {
				continue
			}
			if b, isB := lc.Call.Value.(*ssa.Builtin); !isB || b.Name() != "len" {
				continue
			}
			rv := lc.Call.Args[0]
			if _, isSl := rv.Type().Underlying().(*types.Slice); !isSl {
				continue
			}
			if v, ok := st.regs[rv]; ok {
				return SV{T: ex.termOf(fr, st, v, rv.Type()), Ty: SType{G: rv.Type()}}, true
			}
		}
	}
	if fr != nil && fr.LemmaVars != nil {
		if v, ok := fr.LemmaVars[name]; ok {
			return v, true
		}
	}
	if fr != nil && fr.Fn != nil {
		fn := fr.Fn
		if name == "result" && len(env.results) >= 1 {
			return env.results[0], true
		}
		if strings.HasPrefix(name, "result") {
			if n, err := strconv.Atoi(name[6:]); err == nil && n < len(env.results) {
				return env.results[n], true
			}
		}
		for i, rn := range env.resNames {
			if rn == name && i < len(env.results) {
				return env.results[i], true
			}
		}
		if fr.CurLoop != nil {
			// loop-carried variable of the current loop or of an enclosing loop (innermost first)
			var encl []*loopInfo
			for _, li := range fr.Loops {
				if li.Blocks[fr.CurLoop.Header] {
					encl = append(encl, li)
				}
			}
			sort.Slice(encl, func(i, j int) bool { return len(encl[i].Blocks) < len(encl[j].Blocks) })
			for _, li := range encl {
				for _, ins := range li.Header.Instrs {
					phi, ok := ins.(*ssa.Phi)
					if !ok {
						break
					}
					if phi.Comment == name {
						if v, ok := st.regs[phi]; ok {
							return SV{T: ex.termOf(fr, st, v, phi.Type()), Ty: SType{G: phi.Type()}}, true
						}
					}
				}
			}
			// a loop-carried variable of an earlier loop that was left through an exit (the current
			// loop is not nested in it in the CFG, but the variable's current value is that phi)
			var best *ssa.Phi
			for _, b := range fn.Blocks {
				if !b.Dominates(fr.CurLoop.Header) {
					continue
				}
				for _, ins := range b.Instrs {
					phi, ok := ins.(*ssa.Phi)
					if !ok {
						break
					}
					if phi.Comment == name {
						if _, ok := st.regs[phi]; ok && (best == nil || best.Block().Dominates(b)) {
							best = phi
						}
					}
				}
			}
			if best != nil {
				return SV{T: ex.termOf(fr, st, st.regs[best], best.Type()), Ty: SType{G: best.Type()}}, true
			}
		}
		for i, p := range fn.Params {
			if p.Name() == name || (name == "self" && i == 0 && fn.Signature.Recv() != nil) {
				// parameters denote their entry values in contracts
				src := st
				if env.old != nil {
					src = env.old
				}
				if cv, ok := st.regs[p]; ok && cv.Origin != nil && cv.Origin.Cell > 0 {
					// a slice parameter whose elements the function writes: the name denotes
					// its current content (old(p) its content at entry)
					src = st
				}
				if v, ok := src.regs[p]; ok {
					if v.Origin != nil {
						// cell-backed slice parameter: content as of the state the name refers to
						return SV{T: ex.termOf(fr, src, v, p.Type()), Ty: SType{G: p.Type()}}, true
					}
					return SV{T: ex.termOf(fr, st, v, p.Type()), Ty: SType{G: p.Type()}}, true
				}
			}
		}
		// loop-carried variables: phis named by comment, prefer current loop's header
		var cands []*ssa.Phi
		for _, b := range fn.Blocks {
			for _, ins := range b.Instrs {
				if phi, ok := ins.(*ssa.Phi); ok && phi.Comment == name {
					if _, ok := st.regs[phi]; ok {
						cands = append(cands, phi)
					}
				}
			}
		}
		if len(cands) > 0 {
			best := cands[len(cands)-1]
			if fr.CurLoop != nil {
				for _, c := range cands {
					if c.Block() == fr.CurLoop.Header {
						best = c
					}
				}
			}
			return SV{T: ex.termOf(fr, st, st.regs[best], best.Type()), Ty: SType{G: best.Type()}}, true
		}
		// a variable that lives in a cell (captured by a closure / address taken): its current
		// content, not the value it was initialised with
		{
			var allocs []*ssa.Alloc
			for _, b := range fn.Blocks {
				for _, ins := range b.Instrs {
					if a, ok := ins.(*ssa.Alloc); ok && a.Comment == name {
						if _, ok := st.regs[a]; ok {
							allocs = append(allocs, a)
						}
					}
				}
			}
			if len(allocs) == 0 && env.results != nil {
				// a postcondition evaluated on a path that returns before the variable is
				// declared: it denotes an arbitrary value there
				for _, b := range fn.Blocks {
					for _, ins := range b.Instrs {
						if a, ok := ins.(*ssa.Alloc); ok && a.Comment == name {
							et := a.Type().(*types.Pointer).Elem()
							return SV{T: Var("undef$"+name, w.SortOf(et)), Ty: SType{G: et}}, true
						}
					}
				}
			}
			if len(allocs) == 1 {
				a := allocs[0]
				v := ex.val(fr, st, a)
				et := a.Type().(*types.Pointer).Elem()
				if v.Ptr != nil && v.Ptr.Cell > 0 && len(v.Ptr.Path) == 0 {
					if _, isStruct := et.Underlying().(*types.Struct); !isStruct {
						lv := ex.loadFrom(fr, st, v, et, nil)
						if lv.T != nil {
							return SV{T: lv.T, Ty: SType{G: et}}, true
						}
					}
				}
			}
		}
		// debug refs
		var found ssa.Value
		var foundAddr bool
		for _, b := range fn.Blocks {
			for _, ins := range b.Instrs {
				if d, ok := ins.(*ssa.DebugRef); ok {
					if d.Object() != nil && d.Object().Name() == name {
						if _, isVar := d.Object().(*types.Var); !isVar {
							continue
						}
						if canEval(st, d.X, 0) {
							found = d.X
							foundAddr = d.IsAddr
						}
					}
				}
			}
		}
		if found == nil && env.results != nil {
			// a postcondition on a path that returns before the local is defined: arbitrary value
			for _, b := range fn.Blocks {
				for _, ins := range b.Instrs {
					if d, ok := ins.(*ssa.DebugRef); ok && d.Object() != nil && d.Object().Name() == name && !d.IsAddr {
						if vo, isVar := d.Object().(*types.Var); isVar && vo.Pkg() != nil && vo.Parent() != vo.Pkg().Scope() && !vo.IsField() {
							return SV{T: Var("undef$"+name, w.SortOf(d.X.Type())), Ty: SType{G: d.X.Type()}}, true
						}
					}
				}
			}
		}
		if found != nil {
			v := ex.val(fr, st, found)
			if foundAddr {
				lv := ex.loadFrom(fr, st, v, found.Type().(*types.Pointer).Elem(), nil)
				return SV{T: lv.T, Ty: SType{G: found.Type().(*types.Pointer).Elem()}}, true
			}
			if v.Ptr != nil && v.Ptr.Cell > 0 && len(v.Ptr.Path) == 0 {
				if _, escaped := st.mat[v.Ptr.Cell]; !escaped {
					return SV{Ptr: v.Ptr, Ty: SType{G: found.Type()}}, true
				}
			}
			return SV{T: ex.termOf(fr, st, v, found.Type()), Ty: SType{G: found.Type()}}, true
		}
	}
	// package-level objects
	pkgName := env.pkgName
	if sp := w.pkgByNameOne(pkgName); sp != nil {
		if sv, ok := ex.pkgObject(env, sp, name); ok {
			return sv, true
		}
	}
	if _, ok := w.ByName[name]; ok {
		return SV{IsPkg: name}, true
	}
	return SV{}, false
}

// canEval: v is available or is a pure instruction over available operands.
func canEval(st *State, v ssa.Value, depth int) bool {
	if isLazy(v) {
		return true
	}
	if _, ok := st.regs[v]; ok {
		return true
	}
	if depth > 6 {
		return false
	}
	switch x := v.(type) {
	case *ssa.BinOp:
		return canEval(st, x.X, depth+1) && canEval(st, x.Y, depth+1)
	case *ssa.UnOp:
		if x.Op.String() == "*" {
			return false
		}
		return canEval(st, x.X, depth+1)
	case *ssa.ChangeInterface:
		return canEval(st, x.X, depth+1)
	case *ssa.ChangeType:
		return canEval(st, x.X, depth+1)
	case *ssa.Convert:
		return canEval(st, x.X, depth+1)
	case *ssa.Extract:
		return canEval(st, x.Tuple, depth+1)
	}
	return false
}

func isLazy(v ssa.Value) bool {
	switch v.(type) {
	case *ssa.Const, *ssa.Global, *ssa.Function:
		return true
	}
	return false
}
func valueAvailable(st *State, v ssa.Value) bool {
	if isLazy(v) {
		return true
	}
	_, ok := st.regs[v]
	return ok
}

func (ex *Ex) pkgObject(env *Env, sp *ssa.Package, name string) (SV, bool) {
	o := sp.Pkg.Scope().Lookup(name)
	if o == nil {
		return SV{}, false
	}
	switch x := o.(type) {
	case *types.Const:
		switch x.Val().Kind() {
		case constant.Int:
			n, _ := constant.Int64Val(x.Val())
			return SV{T: IntLit(n), Ty: SType{G: x.Type()}}, true
		case constant.String:
			return SV{T: StrLit(constant.StringVal(x.Val())), Ty: SType{G: x.Type()}}, true
		case constant.Bool:
			return SV{T: BoolLit(constant.BoolVal(x.Val())), Ty: SType{G: x.Type()}}, true
		}
	case *types.Var:
		if g, ok := sp.Members[name].(*ssa.Global); ok {
			src := env.st
			return SV{T: ex.globalGet(src, g), Ty: SType{G: x.Type()}}, true
		}
	}
	return SV{}, false
}

func (ex *Ex) coerceNil(v SV, to SType) SV {
	if !v.IsNil {
		return v
	}
	w := ex.W
	if to.G == nil {
		return v
	}
	return SV{T: w.Zero(to.G), Ty: to}
}

// coerceTo adapts a value to a declared parameter type (interface boxing, map deref).
func (ex *Ex) coerceTo(env *Env, v SV, to SType) (SV, error) {
	if v.IsNil {
		if to.MapVal {
			return SV{}, fmt.Errorf("nil map content")
		}
		return ex.coerceNil(v, to), nil
	}
	if to.TypeID || to.Set != nil || v.Ty.G == nil {
		return v, nil
	}
	if to.MapVal {
		if !v.Ty.MapVal {
			return ex.derefMap(env, v), nil
		}
		return v, nil
	}
	if to.G != nil && isIface(to.G) && !isIface(v.Ty.G) {
		val := Val{T: v.T}
		return SV{T: ex.makeIface(env.fr, env.st, val, v.Ty.G), Ty: to}, nil
	}
	return SV{T: v.T, Ty: to}, nil
}

func (ex *Ex) derefMap(env *Env, v SV) SV {
	mt := v.Ty.G.Underlying().(*types.Map)
	mv, _, _ := ex.mapContent(env.st, v.T, mt)
	return SV{T: mv, Ty: SType{G: v.Ty.G, MapVal: true}}
}

func (ex *Ex) tr(env *Env, e *Expr) (SV, error) {
	w := ex.W
	env.depth++
	defer func() { env.depth-- }()
	if env.depth > 200 {
		return SV{}, env.errf(e, "spec expression too deep")
	}
	switch e.Kind {
	case "int":
		n, _ := strconv.ParseInt(e.Name, 10, 64)
		return SV{T: IntLit(n), Ty: tInt}, nil
	case "str":
		return SV{T: StrLit(e.Name), Ty: tString}, nil
	case "bool":
		return SV{T: BoolLit(e.Name == "true"), Ty: tBool}, nil
	case "nil":
		return SV{IsNil: true}, nil
	case "ident":
		v, ok := ex.lookupIdent(env, e.Name)
		if !ok {
			return SV{}, env.errf(e, "unknown identifier %s", e.Name)
		}
		return v, nil
	case "old":
		if env.old == nil {
			return ex.tr(env, e.Args[0])
		}
		n := env.child()
		n.st = env.old
		// evaluation in the old state must not pollute it
		n.st = env.old.Clone()
		v, err := ex.tr(n, e.Args[0])
		if err != nil {
			return SV{}, err
		}
		// a map denotes its content *in the old state*
		if v.T != nil && v.Ty.G != nil && !v.Ty.MapVal {
			if _, isMap := v.Ty.G.Underlying().(*types.Map); isMap {
				return ex.derefMap(n, v), nil
			}
		}
		return v, nil
	case "unop":
		a, err := ex.tr(env, e.Args[0])
		if err != nil {
			return SV{}, err
		}
		if e.Name == "!" {
			if a.T == nil || !a.T.S.Eq(SBool) {
				return SV{}, env.errf(e, "! on non-bool")
			}
			return SV{T: Not(a.T), Ty: tBool}, nil
		}
		return SV{T: Sub(IntLit(0), a.T), Ty: a.Ty}, nil
	case "binop":
		return ex.trBinop(env, e)
	case "cond":
		c, err := ex.trBool(env, e.Args[0])
		if err != nil {
			return SV{}, err
		}
		a, err := ex.tr(env, e.Args[1])
		if err != nil {
			return SV{}, err
		}
		b, err := ex.tr(env, e.Args[2])
		if err != nil {
			return SV{}, err
		}
		a, b = ex.unifyNil(a, b)
		if a.T == nil || b.T == nil {
			return SV{}, env.errf(e, "cannot type conditional branches")
		}
		a, b = ex.unifyIface(env, a, b)
		if !a.T.S.Eq(b.T.S) {
			return SV{}, env.errf(e, "conditional branches have different sorts %s / %s", a.T.S, b.T.S)
		}
		return SV{T: Ite(c, a.T, b.T), Ty: a.Ty}, nil
	case "quant":
		n := env.child()
		var vars []*T
		var guards []*T
		for _, p := range e.Vars {
			ty, err := w.ResolveType(p.Type, env.pkgName)
			if err != nil {
				return SV{}, env.errf(e, "%v", err)
			}
			bv := Var(p.Name+"$q", ex.sortOfS(ty))
			vars = append(vars, bv)
			n.vars[p.Name] = SV{T: bv, Ty: ty}
			_ = guards
		}
		body, err := ex.trBool(n, e.Args[0])
		if err != nil {
			return SV{}, err
		}
		var pats [][]*T
		for _, p := range e.Pats {
			var pt []*T
			for _, x := range p {
				v, err := ex.tr(n, x)
				if err != nil {
					return SV{}, err
				}
				pt = append(pt, v.T)
			}
			pats = append(pats, pt)
		}
		if len(vars) == 1 && vars[0].S.Eq(SInt) && len(pats) == 0 {
			if t := expandBounded(e.Name, vars[0], body); t != nil {
				return SV{T: t, Ty: tBool}, nil
			}
		}
		if e.Name == "forall" {
			return SV{T: Forall(vars, body, pats...), Ty: tBool}, nil
		}
		return SV{T: Exists(vars, body), Ty: tBool}, nil
	case "let":
		v, err := ex.tr(env, e.Args[0])
		if err != nil {
			return SV{}, err
		}
		n := env.child()
		n.vars[e.Name] = v
		return ex.tr(n, e.Args[1])
	case "typeof":
		a, err := ex.tr(env, e.Args[0])
		if err != nil {
			return SV{}, err
		}
		if a.T == nil || !a.T.S.Eq(SIface) {
			if a.T != nil && a.Ty.G != nil {
				return SV{T: w.TypeConst(a.Ty.G), Ty: SType{TypeID: true}}, nil
			}
			return SV{}, env.errf(e, "typeof needs an interface value")
		}
		return SV{T: Dyn(a.T), Ty: SType{TypeID: true}}, nil
	case "typeid":
		ty, err := w.ResolveType(e.Type, env.pkgName)
		if err != nil {
			return SV{}, env.errf(e, "%v", err)
		}
		return SV{T: w.TypeConst(ty.G), Ty: SType{TypeID: true}}, nil
	case "typeis":
		a, err := ex.tr(env, e.Args[0])
		if err != nil {
			return SV{}, err
		}
		ty, err := w.ResolveType(e.Type, env.pkgName)
		if err != nil {
			return SV{}, env.errf(e, "%v", err)
		}
		var d *T
		if a.Ty.TypeID {
			d = a.T
		} else if a.T != nil && a.T.S.Eq(SIface) {
			d = Dyn(a.T)
		} else {
			return SV{}, env.errf(e, "typeis needs an interface value or a Type")
		}
		if isIface(ty.G) {
			return SV{T: And(Not(Eq(d, IntLit(0))), ex.implementsTerm(d, ty.G.Underlying().(*types.Interface))), Ty: tBool}, nil
		}
		return SV{T: Eq(d, w.TypeConst(ty.G)), Ty: tBool}, nil
	case "cast":
		a, err := ex.tr(env, e.Args[0])
		if err != nil {
			return SV{}, err
		}
		ty, err := w.ResolveType(e.Type, env.pkgName)
		if err != nil {
			return SV{}, env.errf(e, "%v", err)
		}
		if a.T == nil || !a.T.S.Eq(SIface) {
			return SV{}, env.errf(e, "cast of non-interface value")
		}
		if isIface(ty.G) {
			return SV{T: a.T, Ty: ty}, nil
		}
		return SV{T: ex.unboxAs(a.T, ty.G), Ty: ty}, nil
	case "field":
		return ex.trField(env, e)
	case "index":
		a, err := ex.tr(env, e.Args[0])
		if err != nil {
			return SV{}, err
		}
		i, err := ex.tr(env, e.Args[1])
		if err != nil {
			return SV{}, err
		}
		return ex.trIndex(env, e, a, i)
	case "slice":
		a, err := ex.tr(env, e.Args[0])
		if err != nil {
			return SV{}, err
		}
		var lo, hi *T
		if e.Args[1] != nil {
			v, err := ex.tr(env, e.Args[1])
			if err != nil {
				return SV{}, err
			}
			lo = v.T
		} else {
			lo = IntLit(0)
		}
		if a.T != nil && a.T.S.Eq(SString) {
			if e.Args[2] != nil {
				v, err := ex.tr(env, e.Args[2])
				if err != nil {
					return SV{}, err
				}
				hi = v.T
			} else {
				hi = App("str.len", SInt, a.T)
			}
			return SV{T: App("str.substr", SString, a.T, lo, Sub(hi, lo)), Ty: a.Ty}, nil
		}
		return SV{}, env.errf(e, "slice expressions only on strings in specs")
	case "call":
		return ex.trCall(env, e)
	}
	return SV{}, env.errf(e, "unsupported spec expression kind %s", e.Kind)
}

func (ex *Ex) unifyNil(a, b SV) (SV, SV) {
	if a.IsNil && !b.IsNil {
		a = ex.coerceNil(a, b.Ty)
	}
	if b.IsNil && !a.IsNil {
		b = ex.coerceNil(b, a.Ty)
	}
	return a, b
}

// unifyIface boxes a concrete pointer when compared with / mixed with an interface value.
func (ex *Ex) unifyIface(env *Env, a, b SV) (SV, SV) {
	if a.T == nil || b.T == nil || a.Ty.G == nil || b.Ty.G == nil {
		return a, b
	}
	if a.T.S.Eq(SIface) && !b.T.S.Eq(SIface) {
		b, _ = ex.coerceTo(env, b, a.Ty)
	} else if b.T.S.Eq(SIface) && !a.T.S.Eq(SIface) {
		a, _ = ex.coerceTo(env, a, b.Ty)
	}
	return a, b
}

func (ex *Ex) trBinop(env *Env, e *Expr) (SV, error) {
	w := ex.W
	op := e.Name
	switch op {
	case "&&", "||", "==>", "<==>":
		a, err := ex.trBool(env, e.Args[0])
		if err != nil {
			return SV{}, err
		}
		b, err := ex.trBool(env, e.Args[1])
		if err != nil {
			return SV{}, err
		}
		switch op {
		case "&&":
			return SV{T: And(a, b), Ty: tBool}, nil
		case "||":
			return SV{T: Or(a, b), Ty: tBool}, nil
		case "==>":
			return SV{T: Implies(a, b), Ty: tBool}, nil
		default:
			return SV{T: Eq(a, b), Ty: tBool}, nil
		}
	}
	a, err := ex.tr(env, e.Args[0])
	if err != nil {
		return SV{}, err
	}
	b, err := ex.tr(env, e.Args[1])
	if err != nil {
		return SV{}, err
	}
	switch op {
	case "==", "!=":
		var eq *T
		if a.IsNil && b.IsNil {
			eq = tTrue
		} else if (a.IsNil && b.Ptr != nil) || (b.IsNil && a.Ptr != nil) {
			eq = tFalse
		} else if a.IsNil || b.IsNil {
			x := a
			if a.IsNil {
				x = b
			}
			switch {
			case x.T.S.Eq(SIface):
				eq = IfaceIsNil(x.T)
			case x.T.S.Eq(SRef):
				eq = Eq(x.T, NilRef)
			case strings.HasPrefix(x.T.S.Name, "Slice$"):
				eq = w.SliceIsNil(x.T)
			case x.T.S.Eq(SFn):
				eq = Eq(x.T, App("nil$Fn", SFn))
			default:
				return SV{}, env.errf(e, "comparison of %s with nil", x.T.S)
			}
		} else {
			a, b = ex.unifyIface(env, a, b)
			switch {
			case a.T.S.Eq(SIface) && b.T.S.Eq(SIface):
				eq = IfaceEq(a.T, b.T)
			case a.T.S.Eq(b.T.S):
				eq = Eq(a.T, b.T)
			default:
				return SV{}, env.errf(e, "comparison of different sorts %s and %s", a.T.S, b.T.S)
			}
		}
		if op == "!=" {
			eq = Not(eq)
		}
		return SV{T: eq, Ty: tBool}, nil
	case "<", "<=", ">", ">=":
		if a.T == nil || b.T == nil || !a.T.S.Eq(SInt) || !b.T.S.Eq(SInt) {
			return SV{}, env.errf(e, "ordering on non-integers")
		}
		return SV{T: cmpI(op, a.T, b.T), Ty: tBool}, nil
	case "+":
		if a.T.S.Eq(SString) {
			return SV{T: StrConcat(a.T, b.T), Ty: a.Ty}, nil
		}
		return SV{T: Add(a.T, b.T), Ty: a.Ty}, nil
	case "-":
		return SV{T: Sub(a.T, b.T), Ty: a.Ty}, nil
	case "*":
		return SV{T: App("*", SInt, a.T, b.T), Ty: a.Ty}, nil
	case "in":
		if b.Ty.Set == nil {
			return SV{}, env.errf(e, "'in' needs a set")
		}
		return SV{T: Select(b.T, a.T), Ty: tBool}, nil
	}
	return SV{}, env.errf(e, "unsupported operator %s", op)
}

// seqEq: extensional equality of two slices as sequences.
func (ex *Ex) seqEq(a, b SV) *T {
	w := ex.W
	es := w.SortOf(a.Ty.G.Underlying().(*types.Slice).Elem())
	ex.nfresh++
	i := Var(fmt.Sprintf("i$seq%d", ex.nfresh), SInt)
	la, lb := w.SliceLen(a.T), w.SliceLen(b.T)
	return And(Eq(la, lb), Forall([]*T{i}, Implies(And(Ge(i, IntLit(0)), Lt(i, la)), Eq(Select(w.SliceArr(a.T, es), i), Select(w.SliceArr(b.T, es), i)))))
}

func (ex *Ex) trField(env *Env, e *Expr) (SV, error) {
	w := ex.W
	a, err := ex.tr(env, e.Args[0])
	if err != nil {
		return SV{}, err
	}
	if a.IsPkg != "" {
		for _, sp := range w.ByName[a.IsPkg] {
			if sv, ok := ex.pkgObject(env, sp, e.Name); ok {
				return sv, nil
			}
		}
		return SV{}, env.errf(e, "unknown package member %s.%s", a.IsPkg, e.Name)
	}
	if a.Ptr != nil && a.Ty.G != nil {
		if p, ok := a.Ty.G.Underlying().(*types.Pointer); ok {
			if stt, ok := p.Elem().Underlying().(*types.Struct); ok {
				idx, path := findField(stt, e.Name)
				if idx < 0 {
					return SV{}, env.errf(e, "no field %s in %s", e.Name, p.Elem())
				}
				v := env.st.cells[a.Ptr.Cell]
				ft := p.Elem()
				for _, pi := range path {
					st2 := ft.Underlying().(*types.Struct)
					v = w.StructGet(v, st2, pi)
					ft = st2.Field(pi).Type()
				}
				return SV{T: v, Ty: SType{G: ft}}, nil
			}
		}
	}
	if a.T == nil || a.Ty.G == nil {
		return SV{}, env.errf(e, "field selection on untyped value")
	}
	t := a.Ty.G
	if p, ok := t.Underlying().(*types.Pointer); ok {
		stt, ok := p.Elem().Underlying().(*types.Struct)
		if !ok {
			return SV{}, env.errf(e, "field of pointer to non-struct")
		}
		idx, path := findField(stt, e.Name)
		if idx < 0 {
			return SV{}, env.errf(e, "no field %s in %s", e.Name, p.Elem())
		}
		// embedded fields: path through struct values
		cur := p.Elem()
		curSt := stt
		key := w.fieldHeapKey(cur, curSt, path[0])
		h := ex.heapGet(env.st, key, ArraySort(SRef, w.SortOf(curSt.Field(path[0]).Type())))
		v := Select(h, a.T)
		ft := curSt.Field(path[0]).Type()
		for _, pi := range path[1:] {
			st2 := ft.Underlying().(*types.Struct)
			v = w.StructGet(v, st2, pi)
			ft = st2.Field(pi).Type()
		}
		return SV{T: v, Ty: SType{G: ft}}, nil
	}
	if stt, ok := t.Underlying().(*types.Struct); ok {
		idx, path := findField(stt, e.Name)
		if idx < 0 {
			return SV{}, env.errf(e, "no field %s in %s", e.Name, t)
		}
		v := a.T
		ft := t
		for _, pi := range path {
			st2 := ft.Underlying().(*types.Struct)
			v = w.StructGet(v, st2, pi)
			ft = st2.Field(pi).Type()
		}
		return SV{T: v, Ty: SType{G: ft}}, nil
	}
	return SV{}, env.errf(e, "field selection on %s", t)
}

// findField returns the index path to a (possibly promoted) field.
func findField(st *types.Struct, name string) (int, []int) {
	for i := 0; i < st.NumFields(); i++ {
		if st.Field(i).Name() == name {
			return i, []int{i}
		}
	}
	for i := 0; i < st.NumFields(); i++ {
		f := st.Field(i)
		if f.Embedded() {
			if inner, ok := f.Type().Underlying().(*types.Struct); ok {
				if j, p := findField(inner, name); j >= 0 {
					return j, append([]int{i}, p...)
				}
			}
		}
	}
	return -1, nil
}

func (ex *Ex) trIndex(env *Env, e *Expr, a, i SV) (SV, error) {
	w := ex.W
	if a.Ty.Set != nil {
		return SV{T: Select(a.T, i.T), Ty: tBool}, nil
	}
	if a.Ty.G == nil {
		return SV{}, env.errf(e, "index on untyped value")
	}
	switch u := a.Ty.G.Underlying().(type) {
	case *types.Slice:
		return SV{T: Select(w.SliceArr(a.T, w.SortOf(u.Elem())), i.T), Ty: SType{G: u.Elem()}}, nil
	case *types.Array:
		return SV{T: Select(a.T, i.T), Ty: SType{G: u.Elem()}}, nil
	case *types.Map:
		if !a.Ty.MapVal {
			a = ex.derefMap(env, a)
		}
		ks, vs := w.SortOf(u.Key()), w.SortOf(u.Elem())
		return SV{T: Select(mapGetArr(a.T, ks, vs), i.T), Ty: SType{G: u.Elem()}}, nil
	case *types.Basic:
		return SV{T: App("byteAt", SInt, a.T, i.T), Ty: tInt}, nil
	}
	return SV{}, env.errf(e, "index on %s", a.Ty)
}

func (ex *Ex) trCall(env *Env, e *Expr) (SV, error) {
	w := ex.W
	name := e.Name
	argExprs := e.Args
	// package-qualified spec function: pkg.f(x) parses as method-call on ident pkg
	if e.Type != nil && e.Type.Kind == "method" && len(argExprs) > 0 && argExprs[0].Kind == "ident" {
		if _, isVar := ex.lookupIdentQuiet(env, argExprs[0].Name); !isVar {
			argExprs = argExprs[1:]
		}
	}
	var args []SV
	for _, a := range argExprs {
		v, err := ex.tr(env, a)
		if err != nil {
			return SV{}, err
		}
		args = append(args, v)
	}
	need := func(n int) error {
		if len(args) != n {
			return env.errf(e, "%s expects %d arguments", name, n)
		}
		return nil
	}
	switch name {
	case "len":
		if err := need(1); err != nil {
			return SV{}, err
		}
		a := args[0]
		switch {
		case a.T.S.Eq(SString):
			return SV{T: App("str.len", SInt, a.T), Ty: tInt}, nil
		case strings.HasPrefix(a.T.S.Name, "Slice$"):
			return SV{T: w.SliceLen(a.T), Ty: tInt}, nil
		}
		if at, ok := a.Ty.G.Underlying().(*types.Array); ok {
			return SV{T: IntLit(at.Len()), Ty: tInt}, nil
		}
		return SV{}, env.errf(e, "len of %s", a.Ty)
	case "seqEq":
		if err := need(2); err != nil {
			return SV{}, err
		}
		return SV{T: ex.seqEq(args[0], args[1]), Ty: tBool}, nil
	case "hasPrefix":
		return SV{T: App("str.prefixof", SBool, args[1].T, args[0].T), Ty: tBool}, nil
	case "hasSuffix":
		return SV{T: App("str.suffixof", SBool, args[1].T, args[0].T), Ty: tBool}, nil
	case "contains":
		return SV{T: App("str.contains", SBool, args[0].T, args[1].T), Ty: tBool}, nil
	case "has":
		if err := need(2); err != nil {
			return SV{}, err
		}
		a := args[0]
		if a.Ty.G == nil {
			return SV{}, env.errf(e, "has on non-map")
		}
		mt, ok := a.Ty.G.Underlying().(*types.Map)
		if !ok {
			return SV{}, env.errf(e, "has on non-map")
		}
		isNilMap := tFalse
		if !a.Ty.MapVal {
			isNilMap = Eq(a.T, NilRef)
			a = ex.derefMap(env, a)
		}
		return SV{T: And(Not(isNilMap), MapHas(a.T, w.SortOf(mt.Key()), args[1].T)), Ty: tBool}, nil
	case "comparable":
		return SV{T: App("comparable", SBool, args[0].T), Ty: tBool}, nil
	case "hasMethod":
		// hasMethod(T, "Name() sig")
		if len(argExprs) != 2 || argExprs[1].Kind != "str" {
			return SV{}, env.errf(e, "hasMethod(T, \"Name(params) results\")")
		}
		sym, ok := methodSymFromSpec(argExprs[1].Name)
		if !ok {
			return SV{}, env.errf(e, "bad method signature string")
		}
		return SV{T: App(sym, SBool, args[0].T), Ty: tBool}, nil
	case "deref":
		if err := need(1); err != nil {
			return SV{}, err
		}
		a := args[0]
		p, ok := a.Ty.G.Underlying().(*types.Pointer)
		if !ok {
			return SV{}, env.errf(e, "deref of non-pointer")
		}
		lv := ex.loadFrom(env.fr, env.st, Val{T: a.T}, p.Elem(), nil)
		return SV{T: lv.T, Ty: SType{G: p.Elem()}}, nil
	case "callres0", "callres1", "callres2", "callres3":
		// callresN(f, args...): the N-th result of calling the (pure) function value f
		if len(args) < 1 || args[0].Ty.G == nil {
			return SV{}, env.errf(e, "%s needs a function value", name)
		}
		sig, ok := args[0].Ty.G.Underlying().(*types.Signature)
		if !ok {
			return SV{}, env.errf(e, "%s on non-function", name)
		}
		idx := int(name[len(name)-1] - '0')
		if idx >= sig.Results().Len() || len(args)-1 != sig.Params().Len() {
			return SV{}, env.errf(e, "%s: arity mismatch", name)
		}
		ts := []*T{args[0].T}
		for i, a := range args[1:] {
			ca, err := ex.coerceTo(env, a, SType{G: sig.Params().At(i).Type()})
			if err != nil {
				return SV{}, env.errf(e, "%v", err)
			}
			ts = append(ts, ca.T)
		}
		rt := sig.Results().At(idx).Type()
		return SV{T: App(appSym(sig, idx), w.SortOf(rt), ts...), Ty: SType{G: rt}}, nil
	case "seqContains":
		// seqContains(s, x): exists i in range with s[i] == x
		if err := need(2); err != nil {
			return SV{}, err
		}
		sl, ok := args[0].Ty.G.Underlying().(*types.Slice)
		if !ok {
			return SV{}, env.errf(e, "seqContains on non-slice")
		}
		es0 := w.SortOf(sl.Elem())
		ex.nfresh++
		iv := Var(fmt.Sprintf("i$sc%d", ex.nfresh), SInt)
		return SV{T: Exists([]*T{iv}, And(Ge(iv, IntLit(0)), Lt(iv, w.SliceLen(args[0].T)), Eq(Select(w.SliceArr(args[0].T, es0), iv), args[1].T))), Ty: tBool}, nil
	case "seqAppend":
		// seqAppend(s, x): s ++ [x]
		if err := need(2); err != nil {
			return SV{}, err
		}
		sl2, ok := args[0].Ty.G.Underlying().(*types.Slice)
		if !ok {
			return SV{}, env.errf(e, "seqAppend on non-slice")
		}
		es1 := w.SortOf(sl2.Elem())
		ln := w.SliceLen(args[0].T)
		return SV{T: w.MkSlice(es1, Store(w.SliceArr(args[0].T, es1), ln, args[1].T), Add(ln, IntLit(1)), tFalse), Ty: args[0].Ty}, nil
	case "seq":
		// seq(a, b, ...): a slice value with the given elements (element type of the first)
		if len(args) == 0 || args[0].Ty.G == nil && !args[0].IsNil {
			return SV{}, env.errf(e, "seq needs typed elements")
		}
		var et types.Type
		for _, a := range args {
			if a.Ty.G != nil {
				et = a.Ty.G
				break
			}
		}
		if et == nil {
			return SV{}, env.errf(e, "seq needs at least one typed element")
		}
		es := w.SortOf(et)
		arr := App("as-const$"+es.Mangle(), ArraySort(SInt, es), w.Zero(et))
		for i, a := range args {
			a = ex.coerceNil(a, SType{G: et})
			arr = Store(arr, IntLit(int64(i)), a.T)
		}
		return SV{T: w.MkSlice(es, arr, IntLit(int64(len(args))), tFalse), Ty: SType{G: types.NewSlice(et)}}, nil
	case "rtypeId":
		// rtypeId(t): the type a reflect.Type value denotes
		return SV{T: App("rtid", SInt, ValOf(args[0].T)), Ty: SType{TypeID: true}}, nil
	case "ref":
		// the reference itself (maps otherwise denote their content under old())
		return SV{T: args[0].T, Ty: SType{G: types.Typ[types.UnsafePointer]}}, nil
	case "fresh":
		return SV{T: Not(App("alloc0", SBool, args[0].T)), Ty: tBool}, nil
	case "typeString":
		// typeString(t): reflect's String() of the type t (typeof(x))
		return SV{T: App("x$typeString", SString, args[0].T), Ty: SType{G: types.Typ[types.String]}}, nil
	case "charStr":
		// charStr(c): the one-character string of a byte / rune
		return SV{T: App("f$charStr", SString, args[0].T), Ty: SType{G: types.Typ[types.String]}}, nil
	case "strOf":
		// strOf(b): string(b) for a byte slice (the conversion the executor uses)
		return SV{T: App("stringOf$"+args[0].T.S.Mangle(), SString, args[0].T), Ty: SType{G: types.Typ[types.String]}}, nil
	case "$call":
		// $call(k): first argument of the k-th call of the closure at the current callback call site
		cs, ok := env.st.ghost["$callsym"]
		if !ok {
			return SV{}, env.errf(e, "$call outside a callback invariant")
		}
		return SV{T: App(cs.T.Op, cs.T.S, args[0].T), Ty: SType{G: universeTypes["error"]}}, nil
	case "ifaceOf":
		// ifaceOf(x): box a concrete value as interface
		v, err := ex.coerceTo(env, args[0], SType{G: universeTypes["any"]})
		return v, err
	case "emptySet":
		return SV{}, env.errf(e, "emptySet needs a type; use setEmpty$T via spec func")
	}
	if name == "closure" {
		// closure("pkg.Func$1"): the function value of a closure without free variables
		if len(argExprs) != 1 || argExprs[0].Kind != "str" {
			return SV{}, env.errf(e, "closure(\"pkg.Func$N\")")
		}
		fn, err := w.ResolveCallee(argExprs[0].Name, env.pkgName)
		if err != nil {
			return SV{}, env.errf(e, "%v", err)
		}
		if len(fn.FreeVars) > 0 {
			return SV{}, env.errf(e, "closure %s has free variables", argExprs[0].Name)
		}
		return SV{T: App("fn$"+mangle(w.funcName(fn)), SFn), Ty: SType{G: fn.Signature}}, nil
	}
	f, ok := w.SpecFuncs[name]
	if !ok {
		return SV{}, env.errf(e, "unknown spec function %s", name)
	}
	if len(args) != len(f.Params) {
		return SV{}, env.errf(e, "%s expects %d arguments, got %d", name, len(f.Params), len(args))
	}
	ret, err := w.ResolveType(f.Ret, f.PkgName)
	if err != nil {
		return SV{}, env.errf(e, "%v", err)
	}
	var cargs []SV
	for i, p := range f.Params {
		pt, err := w.ResolveType(p.Type, f.PkgName)
		if err != nil {
			return SV{}, env.errf(e, "%v", err)
		}
		ca, err := ex.coerceTo(env, args[i], pt)
		if err != nil {
			return SV{}, env.errf(e, "%v", err)
		}
		if ca.T == nil {
			return SV{}, env.errf(e, "argument %d of %s has no value", i, name)
		}
		want := ex.sortOfS(pt)
		if !ca.T.S.Eq(want) {
			return SV{}, env.errf(e, "argument %d of %s: sort %s, want %s", i+1, name, ca.T.S, want)
		}
		cargs = append(cargs, ca)
	}
	if f.Def != nil {
		n := &Env{ex: ex, fr: nil, st: env.st, old: env.old, vars: map[string]SV{}, pkgName: f.PkgName, depth: env.depth}
		for i, p := range f.Params {
			n.vars[p.Name] = cargs[i]
		}
		v, err := ex.tr(n, f.Def)
		if err != nil {
			return SV{}, err
		}
		v = ex.coerceNil(v, ret)
		v.Ty = ret
		return v, nil
	}
	ts := make([]*T, len(cargs))
	for i, a := range cargs {
		ts[i] = a.T
	}
	return SV{T: App("f$"+name, ex.sortOfS(ret), ts...), Ty: ret}, nil
}

func (ex *Ex) lookupIdentQuiet(env *Env, name string) (SV, bool) {
	defer func() { recover() }()
	v, ok := ex.lookupIdent(env, name)
	if ok && v.IsPkg != "" {
		return v, false
	}
	return v, ok
}

// expandBounded: a quantifier over an integer index with literal bounds 0 <= i < N (N small) is
// expanded into a finite conjunction / disjunction (exact).
func expandBounded(kind string, v *T, body *T) *T {
	var conj []*T
	var concl *T
	if kind == "forall" {
		if body.Kind != kApp || body.Op != "=>" {
			return nil
		}
		g := body.Args[0]
		if g.Kind == kApp && g.Op == "and" {
			conj = g.Args
		} else {
			conj = []*T{g}
		}
		concl = body.Args[1]
	} else {
		if body.Kind != kApp || body.Op != "and" {
			return nil
		}
		conj = body.Args
	}
	lo, hi := int64(-1), int64(-1)
	var rest []*T
	for _, c := range conj {
		if c.Kind == kApp && len(c.Args) == 2 {
			a, b := c.Args[0], c.Args[1]
			if c.Op == "<=" && a.Kind == kInt && b.Kind == kVar && b.Op == v.Op && lo < 0 {
				fmt.Sscanf(a.Op, "%d", &lo)
				continue
			}
			if c.Op == ">=" && b.Kind == kInt && a.Kind == kVar && a.Op == v.Op && lo < 0 {
				fmt.Sscanf(b.Op, "%d", &lo)
				continue
			}
			if c.Op == "<" && b.Kind == kInt && a.Kind == kVar && a.Op == v.Op && hi < 0 {
				fmt.Sscanf(b.Op, "%d", &hi)
				continue
			}
		}
		rest = append(rest, c)
	}
	if lo != 0 || hi < 0 || hi > 16 {
		return nil
	}
	var parts []*T
	for k := lo; k < hi; k++ {
		m := map[string]*T{v.Op: IntLit(k)}
		if kind == "forall" {
			parts = append(parts, Implies(Subst(And(rest...), m), Subst(concl, m)))
		} else {
			parts = append(parts, Subst(And(rest...), m))
		}
	}
	if kind == "forall" {
		return And(parts...)
	}
	return Or(parts...)
}
