package main

// Generic replay generator: rebuild the counterexample's arguments as Go values and call the
// real function from an in-package test injected with `go test -overlay`.

import (
	"fmt"
	"go/types"
	"strings"
)

type goBuilder struct {
	w       *World
	m       *Model
	home    *types.Package // package the test lives in
	fail    string
	imports map[string]string
}

func (g *goBuilder) qual(p *types.Package) string {
	if p == g.home {
		return ""
	}
	g.imports[p.Path()] = p.Name()
	return p.Name()
}

func (g *goBuilder) typeStr(t types.Type) string {
	return types.TypeString(t, g.qual)
}

// value renders model value x of Go type t as a Go expression ("" on failure).
func (g *goBuilder) value(x *sx, t types.Type, depth int) string {
	if x == nil || depth > 8 {
		g.fail = "value too deep or missing"
		return ""
	}
	w := g.w
	switch u := t.Underlying().(type) {
	case *types.Basic:
		switch {
		case u.Info()&types.IsInteger != 0:
			n, ok := sxInt(x)
			if !ok {
				g.fail = "non-literal int " + x.String()
				return ""
			}
			return fmt.Sprintf("%s(%d)", g.typeStr(t), n)
		case u.Info()&types.IsBoolean != 0:
			return x.atom
		case u.Info()&types.IsString != 0:
			if !x.str {
				g.fail = "non-literal string " + x.String()
				return ""
			}
			return fmt.Sprintf("%s(%q)", g.typeStr(t), x.atom)
		}
	case *types.Struct:
		s := w.SortOf(t)
		args := CtorArgs(x, "mk$"+s.Name)
		if args == nil || len(args) != u.NumFields() {
			g.fail = "bad struct value " + trunc(x.String(), 80)
			return ""
		}
		var fs []string
		for i := 0; i < u.NumFields(); i++ {
			f := u.Field(i)
			if !f.Exported() && f.Pkg() != g.home {
				// cannot set foreign unexported fields: leave zero (only XXX_ protobuf internals in practice)
				continue
			}
			v := g.value(args[i], f.Type(), depth+1)
			if v == "" {
				return ""
			}
			fs = append(fs, f.Name()+": "+v)
		}
		return g.typeStr(t) + "{" + strings.Join(fs, ", ") + "}"
	case *types.Slice:
		s := w.SortOf(t)
		args := CtorArgs(x, "mk$"+s.Name)
		if args == nil {
			g.fail = "bad slice value " + trunc(x.String(), 80)
			return ""
		}
		n, ok := sxInt(args[1])
		if !ok || n < 0 || n > 64 {
			g.fail = fmt.Sprintf("slice length %s not replayable", args[1])
			return ""
		}
		if args[2].atom == "true" && n == 0 {
			return g.typeStr(t) + "(nil)"
		}
		var es []string
		for i := int64(0); i < n; i++ {
			ev := g.m.ArrayAt(args[0], &sx{atom: fmt.Sprint(i)})
			if ev == nil {
				g.fail = "cannot evaluate array element"
				return ""
			}
			v := g.value(g.m.Eval(ev, nil, 0), u.Elem(), depth+1)
			if v == "" {
				return ""
			}
			es = append(es, v)
		}
		return g.typeStr(t) + "{" + strings.Join(es, ", ") + "}"
	case *types.Interface:
		args := CtorArgs(x, "mkI")
		if args != nil {
			if n, ok := sxInt(args[0]); ok && n == 0 {
				return "nil"
			}
		}
		g.fail = "non-nil interface value not replayable generically"
		return ""
	case *types.Pointer, *types.Map, *types.Signature, *types.Chan:
		if x.isAtom() && strings.Contains(x.atom, "nil") {
			return "nil"
		}
		g.fail = "pointer value not replayable generically"
		return ""
	}
	g.fail = "unsupported type " + t.String()
	return ""
}

// genericFuncReplay handles obligations of a top-level function whose parameters are plain values.
func genericFuncReplay(w *World, o *Obligation, q *Query, _ map[string]string) (string, string) {
	if q.Fn == nil || q.Fn.Pkg == nil || len(q.Fn.FreeVars) > 0 || q.Status != "sat" {
		return "", ""
	}
	fn := q.Fn
	m := ParseModel(q.Output)
	g := &goBuilder{w: w, m: m, home: fn.Pkg.Pkg, imports: map[string]string{}}
	var args []string
	params := fn.Params
	recvExpr := ""
	for i, p := range params {
		c := m.Const("p$" + p.Name())
		var v string
		if c == nil {
			// unconstrained parameter: zero value
			v = "*new(" + g.typeStr(p.Type()) + ")"
		} else {
			v = g.value(c, p.Type(), 0)
		}
		if v == "" {
			return "", ""
		}
		if i == 0 && fn.Signature.Recv() != nil {
			recvExpr = v
			continue
		}
		args = append(args, v)
	}
	call := fn.Name() + "(" + strings.Join(args, ", ") + ")"
	if recvExpr != "" {
		call = "(" + recvExpr + ")." + call
	}
	safety := o.Kind != "post"
	var b strings.Builder
	fmt.Fprintf(&b, "package %s\n\nimport (\n\t\"fmt\"\n\t\"testing\"\n", fn.Pkg.Pkg.Name())
	for path, name := range g.imports {
		fmt.Fprintf(&b, "\t%s %q\n", name, path)
	}
	b.WriteString(")\n\n")
	fmt.Fprintf(&b, "// Replay of obligation %s\n// %s\n", o.Name, o.Text)
	b.WriteString("func TestVerifReplay(t *testing.T) {\n")
	b.WriteString("\tdefer func() {\n\t\tif r := recover(); r != nil {\n")
	if safety {
		b.WriteString("\t\t\tt.Fatalf(\"REPLAY-CONFIRMED: panic: %v\", r)\n")
	} else {
		b.WriteString("\t\t\tt.Logf(\"panic: %v\", r)\n")
	}
	b.WriteString("\t\t}\n\t}()\n")
	nres := fn.Signature.Results().Len()
	if nres == 0 {
		fmt.Fprintf(&b, "\t%s\n", call)
	} else {
		var rs []string
		for i := 0; i < nres; i++ {
			rs = append(rs, fmt.Sprintf("r%d", i))
		}
		fmt.Fprintf(&b, "\t%s := %s\n", strings.Join(rs, ", "), call)
		for i := 0; i < nres; i++ {
			fmt.Fprintf(&b, "\tgot%d := fmt.Sprintf(\"%%v\", r%d)\n\tt.Logf(\"result %d = %%s\", got%d)\n", i, i, i, i)
		}
		if !safety {
			// compare with the values the model predicts for the code's results on this path
			conds := []string{}
			for i := 0; i < nres; i++ {
				c := m.Const(fmt.Sprintf("res$%d", i))
				rt := fn.Signature.Results().At(i).Type()
				if c == nil {
					continue
				}
				if bt, ok := rt.Underlying().(*types.Basic); ok && (bt.Info()&(types.IsInteger|types.IsBoolean|types.IsString) != 0) {
					want := c.atom
					if n, ok := sxInt(c); ok {
						want = fmt.Sprint(n)
					}
					conds = append(conds, fmt.Sprintf("got%d == %q", i, want))
				}
			}
			if len(conds) > 0 {
				fmt.Fprintf(&b, "\tif %s {\n\t\tt.Fatalf(\"REPLAY-CONFIRMED: the real function returns the value predicted by the counterexample, which the contract clause forbids: %s\")\n\t}\n", strings.Join(conds, " && "), escapeGo(o.Text))
			}
		}
	}
	b.WriteString("}\n")
	rel := strings.TrimPrefix(strings.TrimPrefix(fn.Pkg.Pkg.Path(), w.ModPath), "/")
	return rel, b.String()
}

func escapeGo(s string) string {
	s = strings.ReplaceAll(s, "\\", "\\\\")
	s = strings.ReplaceAll(s, "\"", "\\\"")
	s = strings.ReplaceAll(s, "%", "%%")
	return s
}

func init() {
	registerReplay(`.*`, genericFuncReplay)
}
