package main

// Replay template for read-only frame obligations (C18): one error tree containing every library
// wrapper is observed concurrently by 16 goroutines under the race detector. The race detector is
// the replay vehicle only; the deciding step is the frame obligation.

func frameReplay(w *World, o *Obligation, q *Query, _ map[string]string) (string, string) {
	src := `// flags: -race
// confirm: DATA RACE|REPLAY-CONFIRMED
package errors_test

import (
	"context"
	"fmt"
	"sync"
	"testing"

	"github.com/cockroachdb/errors"
	"github.com/cockroachdb/logtags"
	"github.com/cockroachdb/redact"
)

// Replay of obligation ` + o.Name + `
func TestVerifReplay(t *testing.T) {
	ctx := logtags.AddTag(logtags.AddTag(context.Background(), "k", 123), "safe", redact.Safe(456))
	build := func() error {
		e := errors.Newf("leaf %s %d", "arg", 1)
		e = errors.WithContextTags(e, ctx)
		e = errors.WithDomain(e, errors.NamedDomain("dom"))
		e = errors.WithTelemetry(e, "tk1", "tk2")
		e = errors.WithIssueLink(e, errors.IssueLink{IssueURL: "http://x/1", Detail: "d"})
		e = errors.WithHint(errors.WithDetail(e, "detail"), "hint")
		e = errors.WithSafeDetails(e, "sd %s\nsecond line %d", errors.Safe("v"), 7)
		e = errors.WithSecondaryError(e, errors.New("second"))
		e = errors.Mark(e, errors.New("ref"))
		e = errors.Wrapf(e, "wrap %d", 2)
		e = errors.WithStack(e)
		e = errors.Handled(e)
		e = errors.WithAssertionFailure(errors.Wrap(e, "outer"))
		e = errors.Join(e, errors.New("other"))
		return errors.Wrap(e, "top")
	}
	// purity: observing an error must not change what later observers see
	for _, e := range []error{
		build(),
		errors.WithHint(errors.WithSafeDetails(errors.WithTelemetry(fmt.Errorf("plain %d", 1), "k1\nk2"), "first %d\nsecond %d", 1, 2), "h"),
		errors.DecodeError(context.Background(), errors.EncodeError(context.Background(), errors.WithSafeDetails(fmt.Errorf("plain"), "x %d\ny", 3))),
	} {
		snap := func() string {
			enc := errors.EncodeError(context.Background(), e)
			return fmt.Sprintf("%+v|%v|%q", e, errors.GetAllSafeDetails(e), enc.String())
		}
		before := snap()
		_, _ = errors.BuildSentryReport(e)
		_ = errors.GetAllSafeDetails(e)
		_ = errors.EncodeError(context.Background(), e)
		_ = fmt.Sprintf("%+v", e)
		_ = redact.Sprintf("%+v", e)
		_ = errors.FlattenHints(e)
		if after := snap(); after != before {
			t.Errorf("REPLAY-CONFIRMED: observing the error changed it")
		}
	}
	for round := 0; round < 30; round++ {
		e := build()
		if round%3 == 1 {
			e = errors.DecodeError(context.Background(), errors.EncodeError(context.Background(), e))
		}
		var wg sync.WaitGroup
		gate := make(chan struct{})
		for g := 0; g < 16; g++ {
			wg.Add(1)
			go func(g int) {
				defer wg.Done()
				<-gate
				// the observers, started at a different one in every goroutine
				obs := []func(){
					func() { _ = errors.EncodeError(context.Background(), e) },
					func() { _ = errors.GetAllSafeDetails(e) },
					func() { _, _ = errors.BuildSentryReport(e) },
					func() { _ = e.Error() },
					func() { _ = fmt.Sprintf("%+v", e) },
					func() { _ = redact.Sprintf("%+v", e) },
					func() { _ = errors.FlattenHints(e); _ = errors.FlattenDetails(e); _ = errors.GetAllHints(e) },
					func() { _ = errors.GetTelemetryKeys(e); _ = errors.GetDomain(e) },
					func() { _ = errors.Is(e, context.Canceled); _ = errors.HasAssertionFailure(e) },
					func() { _ = errors.GetReportableStackTrace(e); _ = errors.UnwrapAll(e) },
				}
				for i := range obs {
					obs[(i+g+round)%len(obs)]()
				}
			}(g)
		}
		close(gate)
		wg.Wait()
	}
}
`
	return ".", src
}

func init() {
	registerReplay(`#frame\.`, frameReplay)
}
