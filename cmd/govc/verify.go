package main

// Top-level drivers: verify one function against its contract, run a lemma.

import (
	"fmt"
	"go/token"
	"go/types"
	"strings"

	"golang.org/x/tools/go/ssa"
)

type FuncResult struct {
	Name        string
	Fn          *ssa.Function
	Obls        []*Obligation
	Unsupported string
	Notes       []string
	Paths       int
}

// VerifyFunction symbolically executes fn against contract ctr (may be nil => safety only).
func (w *World) VerifyFunction(fn *ssa.Function, opts VerifyOpts) (res *FuncResult) {
	ex := NewEx(w)
	ex.Props = opts.Props
	ex.Safety = opts.Safety
	ex.FrameChk = opts.Frame
	ex.OnlyKinds = opts.OnlyKinds
	ex.LevelChk = opts.Level
	ex.Vacuity = opts.Vacuity
	if opts.MaxPaths > 0 {
		ex.MaxPaths = opts.MaxPaths
	}
	fr := ex.newFrame(fn, nil)
	fr.Top = true
	if opts.Contract != nil {
		fr.Ctr = opts.Contract
		for _, li := range fr.Loops {
			li.Spec = fr.Ctr.Loops[li.Ord]
		}
	}
	if opts.NameOverride != "" {
		fr.Name = opts.NameOverride
	}
	ex.Top = fr
	res = &FuncResult{Name: fr.Name, Fn: fn}
	defer func() {
		if r := recover(); r != nil {
			if u, ok := r.(unsupported); ok {
				res.Unsupported = u.msg
			} else {
				panic(r)
			}
		}
		for _, n := range ex.OblOrder {
			res.Obls = append(res.Obls, ex.Obls[n])
		}
		res.Notes = sortedKeys(ex.Notes)
		res.Paths = ex.Paths + 1
		if res.Unsupported == "" && len(ex.Partial) > 0 {
			res.Unsupported = fmt.Sprintf("%d path(s) abandoned: %s", len(ex.Partial), ex.Partial[0])
		}
	}()
	if len(fn.Blocks) == 0 {
		unsupp("function %s has no body", fr.Name)
	}
	st := NewState()
	for pi, p := range fn.Params {
		pname := p.Name()
		if pname == "_" || pname == "" {
			pname = fmt.Sprintf("_%d", pi)
		}
		v := ex.symbolic("p$"+pname, p.Type())
		st.regs[p] = v
		ex.assumeParamFacts(st, v.T, p.Type())
	}
	ex.cellsForWrittenSliceParams(fn, st)
	// the zero bytes.Buffer / strings.Builder is empty (T7 model of their content)
	for _, pn := range [][2]string{{"bytes", "Buffer"}, {"strings", "Builder"}} {
		if pkg := w.Prog.ImportedPackage(pn[0]); pkg != nil {
			if tn, ok := pkg.Members[pn[1]].(*ssa.Type); ok {
				bt := tn.Type()
				st.Assume(Eq(App(contentSym(bt), SString, w.Zero(bt)), StrLit("")))
			}
		}
	}
	if fn.Signature.Recv() != nil && len(fn.Params) > 0 {
		if _, ok := fn.Params[0].Type().Underlying().(*types.Pointer); ok {
			// T13: methods are invoked on non-nil receivers
			st.Assume(Not(Eq(st.regs[fn.Params[0]].T, NilRef)))
		}
	}
	for i, fv := range fn.FreeVars {
		_ = i
		_ = fv
	}
	if len(fn.FreeVars) > 0 {
		// closures verified stand-alone: free variables are arbitrary cells
		for _, fv := range fn.FreeVars {
			ex.ncell++
			id := ex.ncell
			elem := fv.Type().(*types.Pointer).Elem()
			st.cells[id] = Var("fv$"+fv.Name(), w.SortOf(elem))
			st.cellType = copyCellTypes(st.cellType)
			st.cellType[id] = elem
			fr.Bindings = append(fr.Bindings, Val{Ptr: &Loc{Cell: id, Pointee: elem}})
		}
	}
	fr.Lvl = Var("lvl", SInt)
	st.ghost["$out"] = SV{T: Var("out0", SString), Ty: SType{G: types.Typ[types.String]}}
	{
		anyT := types.NewSlice(types.NewInterfaceType(nil, nil))
		pv := Var("pargs0", w.SortOf(anyT))
		st.ghost["$pargs"] = SV{T: pv, Ty: SType{G: anyT}}
		st.Assume(Ge(w.SliceLen(pv), IntLit(0)))
		st.ghost["$ptext"] = SV{T: Var("ptext0", SString), Ty: SType{G: types.Typ[types.String]}}
	}
	if fr.Ctr != nil && len(fr.Ctr.CallbackParams) > 0 {
		st.ghost["$ncalls"] = SV{T: Var("ncalls0", SInt), Ty: tInt}
		st.Assume(Ge(Var("ncalls0", SInt), IntLit(0)))
	}
	st.ghost["$cap"] = SV{T: Var("cap0", SInt), Ty: tInt}
	st.ghost["$dom"] = SV{T: Var("dom0", SInt), Ty: tInt}
	fr.Entry = st.Clone()
	ctr := fr.Ctr
	env := ex.newEnv(fr, st)
	if ctr != nil {
		for _, rq := range ctr.Requires {
			if !ex.activeProps(rq.Props) {
				continue
			}
			t, err := ex.trBool(env, rq.E)
			if err != nil {
				unsupp("requires of %s: %v", fr.Name, err)
			}
			st.Assume(t)
		}
		var mps []*T
		for _, mp := range ctr.MayPanic {
			if mp.E == nil {
				mps = append(mps, tTrue)
				continue
			}
			t, err := ex.trBool(env, mp.E)
			if err != nil {
				unsupp("maypanic of %s: %v", fr.Name, err)
			}
			mps = append(mps, t)
		}
		if len(mps) > 0 {
			fr.MayPanic = Or(mps...)
		}
	}
	if opts.ExtraRequires != nil {
		for _, t := range opts.ExtraRequires(ex, fr, st) {
			st.Assume(t)
		}
	}
	ex.assumeGlobalInvs(fr, st)
	ex.assumeUsedLemmas(fr, st)
	// type invariants of pointer-typed parameters / receiver
	for _, p := range fn.Params {
		if _, ok := p.Type().Underlying().(*types.Pointer); ok {
			ex.assumeTypeInvIf(fr, st, p.Type(), st.regs[p].T, tTrue)
		}
	}
	fr.Entry = st.Clone()
	// vacuity canary: the precondition must be satisfiable
	if opts.Vacuity {
		o := &Obligation{Name: fr.Name + "#vacuity.pre", Func: fr.Name, Kind: "vacuity", Text: "precondition is satisfiable (canary must be sat)", ExpectFail: true}
		o.Queries = []*Query{{PC: append([]*T(nil), st.pc...), Goal: tFalse, Heap: copyHeap(st.heap)}}
		ex.Obls[o.Name] = o
		ex.OblOrder = append(ex.OblOrder, o.Name)
	}
	fr.OnReturn = func(st2 *State, results []Val) {
		ex.checkPosts(fr, st2, results, opts)
	}
	ex.execBlock(fr, st, fn.Blocks[0], nil)
	return res
}

type VerifyOpts struct {
	Props         map[string]bool
	Safety        bool
	Frame         bool
	Level         bool
	Vacuity       bool
	MaxPaths      int
	Contract      *Contract // override (uniform contracts for sweeps)
	NameOverride  string
	OnlyKinds     map[string]bool
	ExtraRequires func(ex *Ex, fr *Frame, st *State) []*T
	ExtraPosts    func(ex *Ex, fr *Frame, st *State, results []SV) []NamedGoal
}

type NamedGoal struct {
	Name  string
	Text  string
	Goal  *T
	Props []string
}

func (ex *Ex) assumeParamFacts(st *State, t *T, ty types.Type) {
	w := ex.W
	switch u := ty.Underlying().(type) {
	case *types.Slice:
		st.Assume(Ge(w.SliceLen(t), IntLit(0)))
		st.Assume(Implies(w.SliceIsNil(t), Eq(w.SliceLen(t), IntLit(0))))
	case *types.Basic:
		if u.Info()&types.IsUnsigned != 0 {
			st.Assume(Ge(t, IntLit(0)))
		}
	case *types.Pointer:
		st.Assume(App("alloc0", SBool, t))
	case *types.Interface:
		if f := ex.ifaceTypeFact(t, ty); f != nil {
			st.Assume(f)
		}
		st.Assume(App("alloc0", SBool, ValOf(t)))
	}
}

func (ex *Ex) checkPosts(fr *Frame, st *State, results []Val, opts VerifyOpts) {
	ctr := fr.Ctr
	fn := fr.Fn
	ex.returns++
	// sample: the first 6 returning paths, then every 7th up to 24 in total (a function whose first
	// paths are all infeasible combinations of redundant tests must not look vacuous)
	if opts.Vacuity && (ex.covers < 6 || (ex.covers < 24 && ex.returns%7 == 0)) {
		// end-of-path canary: the facts accumulated along some returning path (with all background
		// axioms and instantiations) must be satisfiable. Individual paths may be infeasible; the
		// canary is refuted only if every sampled returning path is refuted.
		ex.covers++
		name := fr.Name + "#vacuity.exit"
		o := ex.Obls[name]
		if o == nil {
			o = &Obligation{Name: name, Func: fr.Name, Kind: "vacuity", Text: "facts along some returning path are satisfiable (canary must not be refuted on every path)", ExpectFail: true}
			ex.Obls[name] = o
			ex.OblOrder = append(ex.OblOrder, name)
		}
		o.Queries = append(o.Queries, &Query{PC: append([]*T(nil), st.pc...), Goal: tFalse, Heap: copyHeap(st.heap), Props: ex.Props})
	}
	var svs []SV
	for i, r := range results {
		t := fn.Signature.Results().At(i).Type()
		rt := ex.termOf(fr, st, r, t)
		svs = append(svs, SV{T: rt, Ty: SType{G: t}})
		// name the code's result so that counterexample models show it
		st.Assume(Eq(Var(fmt.Sprintf("res$%d", i), rt.S), rt))
	}
	if ctr != nil {
		env := ex.newEnv(fr, st)
		env.results = svs
		env.resNames = resultNames(fn.Signature)
		for _, en := range ctr.Ensures {
			if !ex.wantClause(ctr, en) {
				continue
			}
			t, err := ex.trBool(env, en.E)
			if err != nil {
				unsupp("ensures of %s: %v", fr.Name, err)
			}
			name := fmt.Sprintf("%s#post.%d", fr.Name, en.Ord)
			ex.oblige(fr, st, name, "post", ex.clauseProps(fr, en), "postcondition: "+en.Text, t, token.NoPos)
		}
		for _, name := range ctr.Maintains {
			scope := ctr.MaintainsScope[name]
			if len(scope) > 0 && ex.Props != nil {
				want := false
				for _, p := range scope {
					if ex.Props[p] {
						want = true
					}
				}
				if !want {
					continue
				}
			}
			for _, gi := range ex.W.GlobalInvs {
				if gi.Name != name {
					continue
				}
				genv := &Env{ex: ex, st: st, vars: map[string]SV{}, pkgName: gi.PkgName}
				t, err := ex.trBool(genv, gi.E)
				if err != nil {
					unsupp("global invariant %s: %v", gi.Name, err)
				}
				mprops := ex.safetyProps(fr)
				if len(scope) > 0 {
					mprops = scope
				}
				ex.oblige(fr, st, fr.Name+"#maintains."+gi.Name, "post", mprops, "global invariant re-established: "+gi.Text, t, token.NoPos)
			}
		}
	}
	if opts.ExtraPosts != nil {
		for _, g := range opts.ExtraPosts(ex, fr, st, svs) {
			ex.oblige(fr, st, fr.Name+"#"+g.Name, "post", g.Props, g.Text, g.Goal, token.NoPos)
		}
	}
}

func (ex *Ex) wantClause(ctr *Contract, c *Clause) bool {
	if ex.Props == nil {
		return true
	}
	ps := c.Props
	if len(ps) == 0 {
		ps = ctr.Props
	}
	for _, p := range ps {
		if ex.Props[p] {
			return true
		}
	}
	return len(ps) == 0
}

// assumeUsedLemmas: the statements of the pure lemmas named in `uses` clauses (each is proved on
// its own as an obligation of its properties) are available as quantified facts.
func (ex *Ex) assumeUsedLemmas(fr *Frame, st *State) {
	if fr.Ctr == nil {
		return
	}
	for _, name := range fr.Ctr.Uses {
		var lem *Contract
		for _, l := range ex.W.Lemmas {
			if l.Name == name {
				lem = l
			}
		}
		if lem == nil {
			unsupp("uses: unknown lemma %s", name)
		}
		env := &Env{ex: ex, st: st, vars: map[string]SV{}, pkgName: lem.PkgName}
		var vars []*T
		for _, p := range lem.Params {
			ty, err := ex.W.ResolveType(p.Type, lem.PkgName)
			if err != nil {
				unsupp("uses %s: %v", name, err)
			}
			v := Var(p.Name+"$L", ex.sortOfS(ty))
			vars = append(vars, v)
			env.vars[p.Name] = SV{T: v, Ty: ty}
		}
		var pres, concl []*T
		for _, rq := range lem.Requires {
			t, err := ex.trBool(env, rq.E)
			if err != nil {
				unsupp("uses %s: %v", name, err)
			}
			pres = append(pres, t)
		}
		for _, s := range lem.Steps {
			if s.Kind != "assert" {
				unsupp("uses %s: only pure lemmas (requires + asserts) can be used", name)
			}
			t, err := ex.trBool(env, s.E)
			if err != nil {
				unsupp("uses %s: %v", name, err)
			}
			concl = append(concl, t)
		}
		ex.note("lemma " + name + " is used as a fact (proved separately as obligation lemma." + name + ")")
		st.Assume(Forall(vars, Implies(And(pres...), And(concl...))))
	}
}

func exprIdents(e *Expr, out map[string]bool) {
	if e == nil {
		return
	}
	if e.Kind == "ident" {
		out[e.Name] = true
	}
	for _, a := range e.Args {
		exprIdents(a, out)
	}
}

// readsGlobals: package-level variables referenced by fn or by its un-contracted module callees.
func (w *World) readsGlobals(fn *ssa.Function, depth int, seen map[*ssa.Function]bool, out map[*ssa.Global]bool) {
	if fn == nil || seen[fn] || depth > 4 {
		return
	}
	seen[fn] = true
	for _, b := range fn.Blocks {
		for _, ins := range b.Instrs {
			for _, op := range ins.Operands(nil) {
				if op == nil || *op == nil {
					continue
				}
				if g, ok := (*op).(*ssa.Global); ok {
					out[g] = true
				}
			}
			if c, ok := ins.(*ssa.Call); ok {
				if callee := c.Call.StaticCallee(); callee != nil && callee.Pkg != nil && w.InModule(callee.Pkg.Pkg) {
					if ctr := w.Contracts[callee]; ctr == nil || ctr.Inline {
						w.readsGlobals(callee, depth+1, seen, out)
					} else {
						// package variables named in the callee's contract reach the caller's
						// proof context through the assumed postconditions
						ids := map[string]bool{}
						for _, cl := range ctr.Ensures {
							exprIdents(cl.E, ids)
						}
						for id := range ids {
							if g, ok := callee.Pkg.Members[id].(*ssa.Global); ok {
								out[g] = true
							}
						}
					}
				}
			}
		}
	}
	for _, af := range fn.AnonFuncs {
		w.readsGlobals(af, depth+1, seen, out)
	}
}

func (ex *Ex) assumeGlobalInvs(fr *Frame, st *State) {
	reads := map[*ssa.Global]bool{}
	if fr.Fn != nil {
		ex.W.readsGlobals(fr.Fn, 0, map[*ssa.Function]bool{}, reads)
	}
	for _, gi := range ex.W.GlobalInvs {
		if fr.Fn != nil {
			ids := map[string]bool{}
			exprIdents(gi.E, ids)
			rel := false
			if sp := ex.W.pkgByNameOne(gi.PkgName); sp != nil {
				for id := range ids {
					if g, ok := sp.Members[id].(*ssa.Global); ok && reads[g] {
						rel = true
					}
				}
			}
			if !rel {
				continue
			}
		}
		genv := &Env{ex: ex, st: st, vars: map[string]SV{}, pkgName: gi.PkgName}
		t, err := ex.trBool(genv, gi.E)
		if err != nil {
			ex.W.warnf("global invariant %s: %v", gi.Name, err)
			continue
		}
		st.Assume(t)
	}
}

// ---------------- lemmas ----------------

func (w *World) RunLemma(lem *Contract, opts VerifyOpts) (res *FuncResult) {
	ex := NewEx(w)
	ex.Safety = false
	// clauses scoped to other properties (requires[Cxx], type invariants) are neither demanded
	// nor assumed in a lemma of different properties
	ex.Props = opts.Props
	if ex.Props == nil && len(lem.Props) > 0 {
		ex.Props = map[string]bool{}
		for _, p := range lem.Props {
			ex.Props[p] = true
		}
	}
	fr := &Frame{Ctr: lem, Name: "lemma." + lem.Name, Top: true, LemmaVars: map[string]SV{}}
	ex.Top = fr
	res = &FuncResult{Name: fr.Name}
	defer func() {
		if r := recover(); r != nil {
			if u, ok := r.(unsupported); ok {
				res.Unsupported = u.msg
			} else {
				panic(r)
			}
		}
		for _, n := range ex.OblOrder {
			res.Obls = append(res.Obls, ex.Obls[n])
		}
		res.Notes = sortedKeys(ex.Notes)
		res.Paths = ex.Paths + 1
		if res.Unsupported == "" && len(ex.Partial) > 0 {
			res.Unsupported = fmt.Sprintf("%d path(s) abandoned: %s", len(ex.Partial), ex.Partial[0])
		}
	}()
	st := NewState()
	fr.Lvl = Var("lvl", SInt)
	st.ghost["$cap"] = SV{T: Var("cap0", SInt), Ty: tInt}
	st.ghost["$dom"] = SV{T: Var("dom0", SInt), Ty: tInt}
	for _, p := range lem.Params {
		ty, err := w.ResolveType(p.Type, lem.PkgName)
		if err != nil {
			unsupp("lemma %s: %v", lem.Name, err)
		}
		v := Var("p$"+p.Name, ex.sortOfS(ty))
		fr.LemmaVars[p.Name] = SV{T: v, Ty: ty}
		if ty.G != nil {
			ex.assumeParamFacts(st, v, ty.G)
			if _, ok := ty.G.Underlying().(*types.Pointer); ok {
				ex.assumeTypeInvIf(fr, st, ty.G, v, tTrue)
			}
			if isIface(ty.G) {
				// objects reachable from the lemma's inputs exist before anything the lemma allocates
				st.Assume(App("alloc0", SBool, ValOf(v)))
			}
		}
	}
	fr.Entry = st.Clone()
	env := ex.newEnv(fr, st)
	env.pkgName = lem.PkgName
	for _, rq := range lem.Requires {
		t, err := ex.trBool(env, rq.E)
		if err != nil {
			unsupp("lemma %s requires: %v", lem.Name, err)
		}
		st.Assume(t)
	}
	if opts.Vacuity {
		o := &Obligation{Name: fr.Name + "#vacuity.pre", Func: fr.Name, Kind: "vacuity", Text: "lemma hypotheses are satisfiable (canary must be sat)", ExpectFail: true}
		o.Queries = []*Query{{PC: append([]*T(nil), st.pc...), Goal: tFalse, Heap: copyHeap(st.heap)}}
		ex.Obls[o.Name] = o
		ex.OblOrder = append(ex.OblOrder, o.Name)
	}
	ex.runLemmaSteps(fr, st, lem, 0)
	return res
}

func (ex *Ex) runLemmaSteps(fr *Frame, st *State, lem *Contract, i int) {
	w := ex.W
	for ; i < len(lem.Steps); i++ {
		s := lem.Steps[i]
		env := ex.newEnv(fr, st)
		env.pkgName = lem.PkgName
		switch s.Kind {
		case "assert":
			t, err := ex.trBool(env, s.E)
			if err != nil {
				unsupp("lemma %s assert: %v", lem.Name, err)
			}
			name := fmt.Sprintf("%s#assert.%d", fr.Name, s.Clause.Ord)
			props := s.Clause.Props
			if len(props) == 0 {
				props = lem.Props
			}
			ex.oblige(fr, st, name, "assert", props, s.Clause.Text, t, token.NoPos)
		case "assume":
			t, err := ex.trBool(env, s.E)
			if err != nil {
				unsupp("lemma %s assume: %v", lem.Name, err)
			}
			ex.note("lemma " + lem.Name + " assumes: " + s.Clause.Text)
			st.Assume(t)
		case "let":
			v, err := ex.tr(env, s.E)
			if err != nil {
				unsupp("lemma %s let: %v", lem.Name, err)
			}
			fr.LemmaVars = copyVars(fr.LemmaVars)
			fr.LemmaVars[s.Names[0]] = v
		case "call":
			fn, err := w.ResolveCallee(s.Callee, lem.PkgName)
			if err != nil {
				unsupp("lemma %s: %v", lem.Name, err)
			}
			if len(s.Args) != len(fn.Params) {
				unsupp("lemma %s: call %s expects %d args", lem.Name, s.Callee, len(fn.Params))
			}
			var args []Val
			for j, a := range s.Args {
				v, err := ex.tr(env, a)
				if err != nil {
					unsupp("lemma %s call arg: %v", lem.Name, err)
				}
				pt := SType{G: fn.Params[j].Type()}
				cv, err := ex.coerceTo(env, v, pt)
				if err != nil || cv.T == nil {
					unsupp("lemma %s call arg %d: cannot coerce", lem.Name, j)
				}
				if !cv.T.S.Eq(w.SortOf(pt.G)) {
					unsupp("lemma %s call %s arg %d: sort %s, want %s", lem.Name, s.Callee, j+1, cv.T.S, w.SortOf(pt.G))
				}
				args = append(args, Val{T: cv.T})
			}
			next := i + 1
			names := s.Names
			sig := fn.Signature
			// a pseudo frame so that inlined code has a parent with depth
			ex.callFunction(fr, st, nil, fn, nil, args, s.Inline, func(st2 *State, res Val) {
				nfr := *fr
				nfr.LemmaVars = copyVars(fr.LemmaVars)
				var rs []Val
				if res.Tuple != nil {
					rs = res.Tuple
				} else if !res.IsZero() {
					rs = []Val{res}
				}
				for j, n := range names {
					if n == "_" || j >= len(rs) {
						continue
					}
					t := sig.Results().At(j).Type()
					nfr.LemmaVars[n] = SV{T: ex.termOf(&nfr, st2, rs[j], t), Ty: SType{G: t}}
				}
				ex.runLemmaSteps(&nfr, st2, lem, next)
			})
			return
		}
	}
}

func copyVars(m map[string]SV) map[string]SV {
	n := make(map[string]SV, len(m)+1)
	for k, v := range m {
		n[k] = v
	}
	return n
}

// ResolveCallee: "pkg.Func" or "pkg.(*T).Method" / "pkg.(T).Method".
func (w *World) ResolveCallee(s, defPkg string) (*ssa.Function, error) {
	c := &Contract{Kind: "func", PkgName: defPkg}
	if j := strings.Index(s, ".("); j >= 0 {
		c.PkgName = s[:j]
		rest := s[j+1:]
		k := strings.Index(rest, ")")
		lx, err := lex(rest[1:k], "callee", 0)
		if err != nil {
			return nil, err
		}
		ty, err := lx.parseType()
		if err != nil {
			return nil, err
		}
		c.Kind = "method"
		c.Recv = ty
		c.Name = strings.TrimPrefix(rest[k+1:], ".")
	} else if j := strings.LastIndex(s, "."); j >= 0 {
		c.PkgName = s[:j]
		c.Name = s[j+1:]
	} else {
		c.Name = s
	}
	return w.ResolveFunc(c)
}
