package main

// Calls (modular / inlined / extern / invoke / builtins), loops, top-level drivers.

import (
	"os"
	"fmt"
	"go/token"
	"go/types"
	"sort"
	"strings"

	"golang.org/x/tools/go/ssa"
)

func (ex *Ex) doCall(fr *Frame, st *State, ins ssa.Instruction, cc *ssa.CallCommon, v ssa.Value, k func(*State, Val)) {
	// builtins
	if b, ok := cc.Value.(*ssa.Builtin); ok {
		k(st, ex.builtin(fr, st, ins, b, cc, v))
		return
	}
	if cc.IsInvoke() {
		ex.invoke(fr, st, ins, cc, v, k)
		return
	}
	var args []Val
	for _, a := range cc.Args {
		args = append(args, ex.val(fr, st, a))
	}
	var callee *ssa.Function
	var bindings []Val
	fv := ex.val(fr, st, cc.Value)
	if fv.Fn != nil {
		callee = fv.Fn.Fn
		bindings = fv.Fn.Bindings
	}
	if callee == nil {
		ex.dynamicCall(fr, st, ins, cc, fv, args, v, k)
		return
	}
	ex.callFunction(fr, st, ins, callee, bindings, args, false, k)
}

// resultVal builds fresh symbolic results for a signature.
func (ex *Ex) freshResults(name string, sig *types.Signature) (Val, []SV) {
	rs := sig.Results()
	var vals []Val
	var svs []SV
	for i := 0; i < rs.Len(); i++ {
		t := rs.At(i).Type()
		v := ex.FreshVar("r$"+name, ex.W.SortOf(t))
		vals = append(vals, Val{T: v})
		svs = append(svs, SV{T: v, Ty: SType{G: t}})
		if f := ex.ifaceTypeFact(v, t); f != nil {
			ex.pendingFacts = append(ex.pendingFacts, f)
		}
	}
	switch len(vals) {
	case 0:
		return Val{}, svs
	case 1:
		return vals[0], svs
	}
	return Val{Tuple: vals}, svs
}

func resultNames(sig *types.Signature) []string {
	var ns []string
	for i := 0; i < sig.Results().Len(); i++ {
		ns = append(ns, sig.Results().At(i).Name())
	}
	return ns
}

func (ex *Ex) inChain(fr *Frame, fn *ssa.Function) bool {
	for f := fr; f != nil; f = f.Parent {
		if f.Fn == fn {
			return true
		}
	}
	return false
}

// callFunction dispatches a call to a statically known function.
func (ex *Ex) callFunction(fr *Frame, st *State, ins ssa.Instruction, callee *ssa.Function, bindings []Val, args []Val, forceInline bool, k func(*State, Val)) {
	w := ex.W
	ctr := w.Contracts[callee]
	if ctr == nil {
		if ec, ok := w.Externs[externKey(callee)]; ok {
			ctr = ec
		}
	}
	if hk := ex.hardcoded(fr, st, ins, callee, args, k); hk {
		return
	}
	if fr.Ctr != nil && fr.Ctr.Callbacks != nil && fr.Ctr.Callbacks[callee.Name()] != nil {
		if ex.callbackCall(fr, st, ins, callee, ctr, args, fr.Ctr.Callbacks[callee.Name()], k) {
			return
		}
	}
	if ctr != nil && !(ctr.Inline || forceInline) {
		ex.frameArgsCheck(fr, st, ins, callee, args)
		ex.callByContract(fr, st, ins, callee, ctr, args, k)
		return
	}
	hasBody := len(callee.Blocks) > 0
	inMod := callee.Pkg != nil && w.InModule(callee.Pkg.Pkg) || (callee.Parent() != nil && callee.Parent().Pkg != nil && w.InModule(callee.Parent().Pkg.Pkg))
	if callee.Synthetic != "" && hasBody && !inMod {
		// wrappers / bound methods of external types
		inMod = false
	}
	if hasBody && (inMod || forceInline || (ctr != nil && ctr.Inline)) && fr.Depth < ex.MaxInline && !ex.inChain(fr, callee) {
		ex.inlineCall(fr, st, ins, callee, bindings, args, k)
		return
	}
	// Error() of a concrete external type: the same text the interface call denotes
	if callee.Name() == "Error" && callee.Signature.Recv() != nil && callee.Signature.Params().Len() == 0 && callee.Signature.Results().Len() == 1 && isString(callee.Signature.Results().At(0).Type()) && len(args) == 1 {
		rt := callee.Signature.Recv().Type()
		k(st, Val{T: App("f$msg", SString, ex.makeIface(fr, st, args[0], rt))})
		return
	}
	// unmodelled: typed havoc of the result
	ex.frameArgsCheck(fr, st, ins, callee, args)
	name := w.funcName(callee)
	ex.note("unmodelled call (result havoced, assumed not to panic nor write tracked memory): " + name)
	res, _ := ex.freshResults(shortFn(name), callee.Signature)
	ex.flushFacts(st)
	k(st, res)
}

func (ex *Ex) flushFacts(st *State) {
	for _, f := range ex.pendingFacts {
		st.Assume(f)
	}
	ex.pendingFacts = nil
}

func shortFn(s string) string {
	if i := strings.LastIndex(s, "."); i >= 0 {
		return mangle(s[i+1:])
	}
	return mangle(s)
}

func externKey(fn *ssa.Function) string {
	if recv := fn.Signature.Recv(); recv != nil {
		return "(" + types.Unalias(recv.Type()).String() + ")." + fn.Name()
	}
	if fn.Pkg != nil {
		return fn.Pkg.Pkg.Path() + "." + fn.Name()
	}
	return fn.String()
}

func (ex *Ex) inlineCall(fr *Frame, st *State, ins ssa.Instruction, callee *ssa.Function, bindings []Val, args []Val, k func(*State, Val)) {
	nf := ex.newFrame(callee, fr)
	nf.Args = args
	nf.Bindings = bindings
	nf.Entry = st.Clone()
	if fr.Lvl != nil {
		nf.Lvl = Add(fr.Lvl, IntLit(1))
	}
	for i, p := range callee.Params {
		if i < len(args) {
			st.regs[p] = args[i]
			nf.Entry.regs[p] = args[i]
		}
	}
	ex.cellsForWrittenSliceParams(callee, st)
	nf.Entry = st.Clone()
	nf.OnReturn = func(st2 *State, results []Val) {
		// element writes through a slice parameter (kept in a callee-local cell, see indexAddr) are
		// written back to the caller's register holding that slice (no other alias is updated: T4)
		if call, ok := ins.(*ssa.Call); ok && !call.Call.IsInvoke() {
			for i, p := range callee.Params {
				if i >= len(call.Call.Args) {
					break
				}
				if _, isSlice := p.Type().Underlying().(*types.Slice); !isSlice {
					continue
				}
				pv, ok := st2.regs[p]
				if !ok || pv.Origin == nil || pv.Origin.Cell <= 0 || len(pv.Origin.Path) != 0 {
					continue
				}
				av := call.Call.Args[i]
				if cur, ok := st2.regs[av]; ok && cur.T != nil && cur.Origin == nil && cur.Back == 0 {
					if nt, ok := st2.cells[pv.Origin.Cell]; ok && nt.S.Eq(cur.T.S) {
						st2.regs[av] = Val{T: nt}
					}
				}
			}
		}
		switch len(results) {
		case 0:
			k(st2, Val{})
		case 1:
			k(st2, results[0])
		default:
			k(st2, Val{Tuple: results})
		}
	}
	if len(callee.Blocks) == 0 {
		unsupp("inline of function without body %s", callee)
	}
	ex.execBlock(nf, st, callee.Blocks[0], nil)
}

// callByContract: assert pre, havoc frame, assume post.
func (ex *Ex) callByContract(fr *Frame, st *State, ins ssa.Instruction, callee *ssa.Function, ctr *Contract, args []Val, k func(*State, Val)) {
	w := ex.W
	cname := w.funcName(callee)
	if ctr.NoBody || ctr.Trusted != "" {
		why := "extern contract"
		if ctr.Trusted != "" {
			why = "trusted: " + ctr.Trusted
		}
		ex.note(fmt.Sprintf("assumed contract of %s (%s)", cname, why))
	}
	// a local object handed to the callee by address escapes here: the callee's contract speaks
	// about (and its assigns clause havocs) heap fields, so the object has to live on the heap
	// BEFORE the precondition is evaluated and the frame is havoced - otherwise the local copy
	// keeps its pre-call content and contradicts the callee's postconditions (vacuous paths)
	for i := range args {
		if os.Getenv("GOVC_SELFTEST_NOESCAPE") != "" {
			break // machinery self-test: re-opens the hole the call canary has to detect
		}
		if l := args[i].Ptr; l != nil && l.Cell > 0 && l.Ref == nil && len(l.Path) == 0 {
			if _, isStruct := st.cellType[l.Cell].Underlying().(*types.Struct); isStruct {
				r := ex.materialize(fr, st, l.Cell)
				args[i] = Val{Ptr: &Loc{Ref: r, Pointee: l.Pointee}}
			}
		}
	}
	// environment over callee parameters
	cf := &Frame{Fn: callee, Ctr: ctr, Parent: fr, Name: cname, Depth: fr.Depth + 1}
	pre := st.Clone()
	for i, p := range callee.Params {
		if i < len(args) {
			pre.regs[p] = args[i]
		}
	}
	cf.Entry = pre
	if fr.Lvl != nil {
		cf.Lvl = Add(fr.Lvl, IntLit(1))
	}
	envPre := ex.newEnv(cf, st)
	envPre.pkgName = ctr.PkgName
	ord := 0
	if ins != nil {
		ord = fr.ordinalOf("call", ins)
	}
	for _, rq := range ctr.Requires {
		if !ex.activeProps(rq.Props) {
			continue
		}
		t, err := ex.trBool(envPre, rq.E)
		if err != nil {
			unsupp("contract of %s: %v", cname, err)
		}
		name := fmt.Sprintf("%s#call.%d.%s.pre.%d", ex.topPrefix(fr), ord, shortFn(cname), rq.Ord)
		ex.scopedPre = len(rq.Props) > 0
		ex.oblige(fr, st, name, "callpre", ex.safetyProps(fr), "precondition of "+cname+": "+rq.Text, t, posOf(ins))
		ex.scopedPre = false
	}
	for _, mp := range ctr.MayPanic {
		cond := tTrue
		if mp.E != nil {
			t, err := ex.trBool(envPre, mp.E)
			if err != nil {
				unsupp("contract of %s: %v", cname, err)
			}
			cond = t
		}
		if ex.Safety {
			goal := Not(cond)
			if ex.Top.MayPanic != nil {
				goal = Or(goal, ex.Top.MayPanic)
			}
			name := fmt.Sprintf("%s#call.%d.%s.nopanic.%d", ex.topPrefix(fr), ord, shortFn(cname), mp.Ord)
			ex.oblige(fr, st, name, "callpanic", ex.safetyProps(fr), "callee "+cname+" may panic when: "+mp.Text, goal, posOf(ins))
		} else {
			st.Assume(Not(cond))
		}
	}
	// havoc assigns
	ex.havocAssigns(cf, st, ctr, args)
	// ghost level state written by the callee
	for _, gname := range []string{"$cap", "$dom", "$out", "$ncalls", "$pargs", "$ptext"} {
		for _, en := range ctr.Ensures {
			ids := map[string]bool{}
			exprIdents(en.E, ids)
			if ids[gname] {
				if cur, ok := st.ghost[gname]; ok && gname == "$out" {
					st.ghost[gname] = SV{T: ex.FreshVar("gout", SString), Ty: cur.Ty}
				} else if cur, ok := st.ghost[gname]; ok && (gname == "$pargs" || gname == "$ptext") {
					st.ghost[gname] = SV{T: ex.FreshVar("g"+gname, cur.T.S), Ty: cur.Ty}
				} else if gname == "$pargs" || gname == "$ptext" {
					// not tracked in this run
				} else {
					st.ghost[gname] = SV{T: ex.FreshVar("g"+gname, SInt), Ty: tInt}
				}
			}
		}
	}
	res, svs := ex.freshResults(shortFn(cname), callee.Signature)
	ex.flushFacts(st)
	envPost := ex.newEnv(cf, st)
	envPost.pkgName = ctr.PkgName
	envPost.results = svs
	envPost.resNames = resultNames(callee.Signature)
	if ctr.Defines != nil && len(svs) == 1 {
		d, err := ex.tr(envPost, ctr.Defines)
		if err != nil {
			unsupp("contract of %s: defines: %v", cname, err)
		}
		if !d.T.S.Eq(svs[0].T.S) {
			unsupp("contract of %s: defines has sort %s, result %s", cname, d.T.S, svs[0].T.S)
		}
		ex.note("result of " + cname + " is named by a spec function (function assumed pure and deterministic)")
		st.Assume(Eq(svs[0].T, d.T))
	}
	for _, en := range ctr.Ensures {
		if !ex.activeProps(en.Props) {
			continue // a postcondition scoped to other properties (proved under requires of that scope)
		}
		t, err := ex.trBool(envPost, en.E)
		if err != nil {
			unsupp("contract of %s: %v", cname, err)
		}
		st.Assume(t)
	}
	for _, as := range ctr.Assumes {
		if !ex.activeProps(as.Props) {
			continue
		}
		t, err := ex.trBool(envPost, as.E)
		if err != nil {
			unsupp("contract of %s: %v", cname, err)
		}
		ex.note("ASSUMED (unverified clause of " + cname + "): " + as.Text)
		st.Assume(t)
	}
	// type invariants of pointer results
	for _, sv := range svs {
		if sv.Ty.G != nil {
			ex.assumeTypeInvIf(cf, st, sv.Ty.G, sv.T, tTrue)
		}
	}
	// call canary (vacuity guard): assuming the callee's postconditions must not make a path
	// infeasible that was feasible before the call (a callee contract contradicting the caller's
	// state would "prove" everything after the call). Sampled: the first path reaching each call
	// site. Query 0: facts before the call; query 1: facts after the postconditions.
	if ex.Vacuity && ins != nil {
		cname2 := fmt.Sprintf("%s#call.%d.%s.feasible", ex.topPrefix(fr), ord, shortFn(cname))
		if _, done := ex.Obls[cname2]; !done {
			o := &Obligation{Name: cname2, Func: ex.Top.Name, Kind: "vacuity", Text: "the postconditions of " + cname + " do not contradict the caller's state (canary pair: after must not be refuted unless before is)", ExpectFail: true, Pair: true}
			o.Queries = append(o.Queries,
				&Query{PC: append([]*T(nil), pre.pc...), Goal: tFalse, Heap: copyHeap(pre.heap), Props: ex.Props},
				&Query{PC: append([]*T(nil), st.pc...), Goal: tFalse, Heap: copyHeap(st.heap), Props: ex.Props})
			ex.Obls[cname2] = o
			ex.OblOrder = append(ex.OblOrder, cname2)
		}
	}
	k(st, res)
}

func posOf(ins ssa.Instruction) token.Pos {
	if ins == nil {
		return token.NoPos
	}
	return ins.Pos()
}

// havocAssigns gives fresh versions to everything in the callee's assigns clauses.
func (ex *Ex) havocAssigns(cf *Frame, st *State, ctr *Contract, args []Val) {
	w := ex.W
	for _, a := range ctr.Assigns {
		for _, item := range strings.Split(a, ",") {
			item = strings.TrimSpace(item)
			switch {
			case item == "" || item == "nothing" || item == "fresh":
			case strings.HasPrefix(item, "global "):
				name := strings.TrimSpace(strings.TrimPrefix(item, "global "))
				sp := w.pkgByNameOne(ctr.PkgName)
				if sp == nil {
					continue
				}
				if g, ok := sp.Members[name].(*ssa.Global); ok {
					t := g.Type().(*types.Pointer).Elem()
					if mt, ok := t.Underlying().(*types.Map); ok {
						// the variable keeps pointing at the same map object; its content changes
						ks, vs := w.SortOf(mt.Key()), w.SortOf(mt.Elem())
						hk := mapHeapKey(ks, vs)
						st.heap[hk] = ex.FreshVar(hk, ArraySort(SRef, w.mapValSort(ks, vs)))
					} else {
						st.globals[g] = ex.FreshVar("G$"+mangle(w.shortName(g)), w.SortOf(t))
					}
				}
			case strings.HasPrefix(item, "mapof "):
				// content of the map passed as the named parameter
				pn := strings.TrimSpace(strings.TrimPrefix(item, "mapof "))
				for _, p := range cf.Fn.Params {
					if p.Name() == pn {
						if mt, ok := p.Type().Underlying().(*types.Map); ok {
							ks, vs := w.SortOf(mt.Key()), w.SortOf(mt.Elem())
							hk := mapHeapKey(ks, vs)
							st.heap[hk] = ex.FreshVar(hk, ArraySort(SRef, w.mapValSort(ks, vs)))
						}
					}
				}
			case strings.HasPrefix(item, "heap "):
				// heap T.f : field heap havoc, e.g. "heap state.entries" or "heap state.*"
				spec := strings.TrimSpace(strings.TrimPrefix(item, "heap "))
				ex.havocHeapSpec(st, ctr.PkgName, spec)
			default:
				ex.W.warnf("%s:%d: unknown assigns item %q", ctr.File, ctr.Line, item)
			}
		}
	}
}

func (ex *Ex) havocHeapSpec(st *State, pkgName, spec string) {
	w := ex.W
	j := strings.LastIndex(spec, ".")
	if j < 0 {
		return
	}
	tn, fn := spec[:j], spec[j+1:]
	te := &TypeExpr{Kind: "name", Name: tn}
	if k := strings.Index(tn, "."); k >= 0 {
		te = &TypeExpr{Kind: "name", Pkg: tn[:k], Name: tn[k+1:]}
	}
	ty, err := w.ResolveType(te, pkgName)
	if err != nil {
		w.warnf("assigns heap %s: %v", spec, err)
		return
	}
	stt, ok := ty.G.Underlying().(*types.Struct)
	if !ok {
		return
	}
	for i := 0; i < stt.NumFields(); i++ {
		if fn == "*" || stt.Field(i).Name() == fn {
			key := w.fieldHeapKey(ty.G, stt, i)
			st.heap[key] = ex.FreshVar(key, ArraySort(SRef, w.SortOf(stt.Field(i).Type())))
		}
	}
}

// ---------------- interface method invocation ----------------

func (ex *Ex) invoke(fr *Frame, st *State, ins ssa.Instruction, cc *ssa.CallCommon, v ssa.Value, k func(*State, Val)) {
	w := ex.W
	recv := ex.termOf(fr, st, ex.val(fr, st, cc.Value), cc.Value.Type())
	ex.panicCheck(fr, st, "invoke", ins, "method call on nil interface", Not(IfaceIsNil(recv)))
	var args []SV
	for _, a := range cc.Args {
		args = append(args, SV{T: ex.termOf(fr, st, ex.val(fr, st, a), a.Type()), Ty: SType{G: a.Type()}})
	}
	m := cc.Method
	sig := m.Type().(*types.Signature)
	if ts := cc.Value.Type().String(); ts == "reflect.Type" || ts == "internal/reflectlite.Type" {
		if r, ok := ex.reflectInvoke(fr, st, recv, m.Name(), args); ok {
			ex.note("extern axiom: reflect.Type." + m.Name() + " is a function of the type identity")
			if r.Kind == kApp && r.Op == "mkI" && r.Args[1].Kind == kApp && r.Args[1].Op == "rtref" {
				st.Assume(Eq(App("rtid", SInt, r.Args[1]), r.Args[1].Args[0]))
			}
			k(st, Val{T: r})
			return
		}
	}
	// iface method spec? (several may share a name, e.g. Unwrap() error / Unwrap() []error: pick by result sort)
	for _, im := range ex.findIfaceMethods(cc.Value.Type(), m.Name()) {
		if sig.Results().Len() != 1 {
			break
		}
		env := &Env{ex: ex, fr: nil, st: st, vars: map[string]SV{}, pkgName: im.PkgName}
		env.vars["self"] = SV{T: recv, Ty: SType{G: cc.Value.Type()}}
		for i, p := range im.Params {
			if i < len(args) {
				env.vars[p.Name] = args[i]
			}
		}
		res, err := ex.tr(env, im.E)
		if err != nil {
			unsupp("iface method spec %s: %v", m.Name(), err)
		}
		res = ex.coerceNil(res, SType{G: sig.Results().At(0).Type()})
		if res.T == nil || !res.T.S.Eq(w.SortOf(sig.Results().At(0).Type())) {
			continue
		}
		// dispatch facts for library types are added at query time (query.go)
		k(st, Val{T: res.T})
		return
	}
	// extern method contract keyed by the static interface type
	if ec, ok := w.Externs["("+cc.Value.Type().String()+")."+m.Name()]; ok {
		ex.invokeByContract(fr, st, ins, ec, recv, cc.Value.Type(), args, sig, k)
		return
	}
	// errbase.Printer: what a SafeFormatError / FormatError method hands to the printer is recorded
	// in the ghost sequence $pargs (every argument of Print / Printf, in order), Detail() is a
	// function of the printer
	if strings.HasSuffix(cc.Value.Type().String(), "errbase.Printer") {
		switch m.Name() {
		case "Print", "Printf":
			if pa, ok := st.ghost["$pargs"]; ok && len(cc.Args) > 0 {
				av := ex.val(fr, st, cc.Args[len(cc.Args)-1])
				n := -1
				if av.Back != 0 && av.BackLen.Kind == kInt {
					fmt.Sscanf(av.BackLen.Op, "%d", &n)
				}
				if c, isC := cc.Args[len(cc.Args)-1].(*ssa.Const); isC && c.IsNil() {
					n = 0 // no variadic arguments
				}
				if n >= 0 {
					cur := pa.T
					es := SIface
					var els []*T
					for i := 0; i < n; i++ {
						el := Select(st.cells[av.Back], Add(av.BackOff, IntLit(int64(i))))
						els = append(els, el)
						cur = w.MkSlice(es, Store(w.SliceArr(cur, es), w.SliceLen(cur), el), Add(w.SliceLen(cur), IntLit(1)), tFalse)
					}
					st.ghost["$pargs"] = SV{T: cur, Ty: pa.Ty}
					// $ptext: the text handed to the printer so far, as fmt renders it (Printf: Sprintf of
					// format and operands; Print of one operand: its %v rendering; T7)
					if pt, ok := st.ghost["$ptext"]; ok {
						var piece *T
						if m.Name() == "Printf" && len(cc.Args) == 2 && n <= 3 {
							fv := ex.termOf(fr, st, ex.val(fr, st, cc.Args[0]), cc.Args[0].Type())
							piece = App(fmt.Sprintf("f$sprintf%d", n), SString, append([]*T{fv}, els...)...)
						} else if m.Name() == "Print" && n == 1 {
							piece = App("f$fmtV", SString, els[0])
						}
						if piece != nil {
							st.ghost["$ptext"] = SV{T: App("str.++", SString, pt.T, piece), Ty: pt.Ty}
						} else {
							st.ghost["$ptext"] = SV{T: ex.FreshVar("ptext", SString), Ty: pt.Ty}
						}
					}
				} else {
					st.ghost["$pargs"] = SV{T: ex.FreshVar("pargs", pa.T.S), Ty: pa.Ty}
					if pt, ok := st.ghost["$ptext"]; ok {
						st.ghost["$ptext"] = SV{T: ex.FreshVar("ptext", SString), Ty: pt.Ty}
					}
				}
			}
			res, _ := ex.freshResults(m.Name(), sig)
			ex.flushFacts(st)
			k(st, res)
			return
		case "Detail":
			k(st, Val{T: App("f$pDetail", SBool, recv)})
			return
		}
	}
	ex.note("unmodelled interface method call (result havoced): " + w.shortType(cc.Value.Type()) + "." + m.Name())
	res, _ := ex.freshResults(m.Name(), sig)
	ex.flushFacts(st)
	k(st, res)
}

func (ex *Ex) findIfaceMethods(it types.Type, method string) []*IfaceMethod {
	ims := ex.W.IfaceMs[method]
	itn := ex.W.shortType(it)
	var exact, wild []*IfaceMethod
	for _, im := range ims {
		if im.Iface == "*" {
			wild = append(wild, im)
			continue
		}
		if im.Iface == itn || strings.HasSuffix(itn, "."+im.Iface) || strings.HasSuffix(itn, "/"+im.Iface) {
			exact = append(exact, im)
		}
	}
	return append(exact, wild...)
}

func (ex *Ex) invokeByContract(fr *Frame, st *State, ins ssa.Instruction, ctr *Contract, recv *T, rt types.Type, args []SV, sig *types.Signature, k func(*State, Val)) {
	name := ex.W.shortType(rt) + "." + ctr.Name
	ex.note("assumed contract of " + name + " (extern method)")
	env := &Env{ex: ex, fr: nil, st: st, vars: map[string]SV{}, pkgName: ctr.PkgName}
	env.vars["self"] = SV{T: recv, Ty: SType{G: rt}}
	for i, p := range ctr.Params {
		if i < len(args) {
			env.vars[p.Name] = args[i]
		}
	}
	ord := fr.ordinalOf("invoke", ins)
	for _, rq := range ctr.Requires {
		if !ex.activeProps(rq.Props) {
			continue
		}
		t, err := ex.trBool(env, rq.E)
		if err != nil {
			unsupp("extern contract %s: %v", name, err)
		}
		ex.oblige(fr, st, fmt.Sprintf("%s#invoke.%d.%s.pre.%d", ex.topPrefix(fr), ord, mangle(ctr.Name), rq.Ord), "callpre", ex.safetyProps(fr), "precondition of "+name+": "+rq.Text, t, posOf(ins))
	}
	res, svs := ex.freshResults(ctr.Name, sig)
	ex.flushFacts(st)
	env.results = svs
	env.resNames = resultNames(sig)
	for i, sv := range svs {
		env.vars[fmt.Sprintf("result%d", i)] = sv
		if i < len(env.resNames) && env.resNames[i] != "" && env.resNames[i] != "_" {
			env.vars[env.resNames[i]] = sv
		}
	}
	if len(svs) == 1 {
		env.vars["result"] = svs[0]
	}
	for _, en := range ctr.Ensures {
		if !ex.activeProps(en.Props) {
			continue
		}
		t, err := ex.trBool(env, en.E)
		if err != nil {
			unsupp("extern contract %s: %v", name, err)
		}
		st.Assume(t)
	}
	k(st, res)
}

// dynamicCall: call through a function value that is not statically known.
func (ex *Ex) dynamicCall(fr *Frame, st *State, ins ssa.Instruction, cc *ssa.CallCommon, fv Val, args []Val, v ssa.Value, k func(*State, Val)) {
	sig := cc.Signature()
	ft := ex.termOf(fr, st, fv, cc.Value.Type())
	ex.panicCheck(fr, st, "nilfn", ins, "call of nil function value", Not(Eq(ft, App("nil$Fn", SFn))))
	if ex.uniformCall(fr, st, ins, cc, ft, args, k) {
		return
	}
	// calls through a parameter declared `callbackparam`: counted in the ghost $ncalls
	if p, ok := cc.Value.(*ssa.Parameter); ok && fr.Ctr != nil && fr == ex.Top {
		for _, pn := range fr.Ctr.CallbackParams {
			if pn == p.Name() {
				n, has := st.ghost["$ncalls"]
				if !has {
					n = SV{T: Var("ncalls0", SInt), Ty: tInt}
				}
				if len(args) > 0 {
					a0 := ex.termOf(fr, st, args[0], cc.Args[0].Type())
					st.Assume(Eq(App("g$cbarg$"+mangle(fr.Name), a0.S, n.T), a0))
				}
				st.ghost["$ncalls"] = SV{T: Add(n.T, IntLit(1)), Ty: tInt}
				ex.note("calls through callback parameter " + p.Name() + " of " + fr.Name + " are counted in the ghost $ncalls; the callback is assumed not to touch what this function reads")
				res, _ := ex.freshResults("cb", sig)
				ex.flushFacts(st)
				k(st, res)
				return
			}
		}
	}
	// calls through a parameter declared `purefn`: results are functions of the arguments
	isPure := func() (bool, string) {
		if fr.Ctr == nil {
			return false, ""
		}
		if fr.Ctr.PureCalls {
			return true, "function values called in " + fr.Name
		}
		if p, ok := cc.Value.(*ssa.Parameter); ok {
			for _, pn := range fr.Ctr.PureFns {
				if pn == p.Name() {
					return true, "parameter " + p.Name() + " of " + fr.Name
				}
			}
		}
		return false, ""
	}
	if pure, what := isPure(); pure {
		for once := true; once; once = false {
			{
				ex.note("calls through " + what + " are pure and deterministic up to allocation (T6)")
				ts := []*T{ft}
				for i, a := range args {
					ts = append(ts, ex.termOf(fr, st, a, cc.Args[i].Type()))
				}
				var rs []Val
				for i := 0; i < sig.Results().Len(); i++ {
					rt := sig.Results().At(i).Type()
					rs = append(rs, Val{T: App(appSym(sig, i), ex.W.SortOf(rt), ts...)})
				}
				switch len(rs) {
				case 0:
					k(st, Val{})
				case 1:
					k(st, rs[0])
				default:
					k(st, Val{Tuple: rs})
				}
				return
			}
		}
	}
	ex.note("unmodelled call through function value (result havoced): " + cc.Value.Type().String())
	res, _ := ex.freshResults("dyn", sig)
	ex.flushFacts(st)
	k(st, res)
}

// appSym: the symbol for the i-th result of a pure call through a function value of signature sig.
func appSym(sig *types.Signature, i int) string {
	q := func(p *types.Package) string { return p.Path() }
	var ps, rs []string
	for j := 0; j < sig.Params().Len(); j++ {
		ps = append(ps, types.TypeString(deepUnalias(sig.Params().At(j).Type()), q))
	}
	for j := 0; j < sig.Results().Len(); j++ {
		rs = append(rs, types.TypeString(deepUnalias(sig.Results().At(j).Type()), q))
	}
	return fmt.Sprintf("app$%s$%d", mangle("("+strings.Join(ps, ",")+")("+strings.Join(rs, ",")+")"), i)
}

// ---------------- builtins ----------------

func (ex *Ex) builtin(fr *Frame, st *State, ins ssa.Instruction, b *ssa.Builtin, cc *ssa.CallCommon, v ssa.Value) Val {
	w := ex.W
	switch b.Name() {
	case "len", "cap":
		a := cc.Args[0]
		av := ex.val(fr, st, a)
		switch at := a.Type().Underlying().(type) {
		case *types.Basic:
			return Val{T: App("str.len", SInt, ex.termOf(fr, st, av, a.Type()))}
		case *types.Slice:
			if av.Back != 0 {
				return Val{T: av.BackLen}
			}
			return Val{T: w.SliceLen(ex.termOf(fr, st, av, a.Type()))}
		case *types.Array:
			return Val{T: IntLit(at.Len())}
		case *types.Map:
			m := ex.termOf(fr, st, av, a.Type())
			r := App("maplen", SInt, m)
			st.Assume(Ge(r, IntLit(0)))
			return Val{T: r}
		case *types.Pointer:
			if arr, ok := at.Elem().Underlying().(*types.Array); ok {
				return Val{T: IntLit(arr.Len())}
			}
		}
		unsupp("len of %s", a.Type())
	case "append":
		return ex.appendBuiltin(fr, st, ins, cc)
	case "delete":
		mt := cc.Args[0].Type().Underlying().(*types.Map)
		m := ex.termOf(fr, st, ex.val(fr, st, cc.Args[0]), cc.Args[0].Type())
		kk := ex.termOf(fr, st, ex.val(fr, st, cc.Args[1]), cc.Args[1].Type())
		ks, vs := w.SortOf(mt.Key()), w.SortOf(mt.Elem())
		mv, hk, ms := ex.mapContent(st, m, mt)
		nmv := App("mk$"+ms.Name, ms, Store(mapHasArr(mv, ks), kk, tFalse), mapGetArr(mv, ks, vs))
		// delete on nil map is a no-op
		st.heap[hk] = Ite(Eq(m, NilRef), st.heap[hk], Store(st.heap[hk], m, nmv))
		return Val{}
	case "copy":
		unsupp("builtin copy")
	case "panic":
		unsupp("builtin panic call")
	case "print", "println":
		return Val{}
	case "min", "max":
		a := ex.termOf(fr, st, ex.val(fr, st, cc.Args[0]), cc.Args[0].Type())
		bb := ex.termOf(fr, st, ex.val(fr, st, cc.Args[1]), cc.Args[1].Type())
		if b.Name() == "min" {
			return Val{T: Ite(Le(a, bb), a, bb)}
		}
		return Val{T: Ite(Ge(a, bb), a, bb)}
	}
	unsupp("builtin %s", b.Name())
	return Val{}
}

func (ex *Ex) appendBuiltin(fr *Frame, st *State, ins ssa.Instruction, cc *ssa.CallCommon) Val {
	w := ex.W
	stype := cc.Args[0].Type().Underlying().(*types.Slice)
	es := w.SortOf(stype.Elem())
	a := ex.termOf(fr, st, ex.val(fr, st, cc.Args[0]), cc.Args[0].Type())
	bv := ex.val(fr, st, cc.Args[1])
	la := w.SliceLen(a)
	arr := w.SliceArr(a, es)
	st.Assume(Ge(la, IntLit(0)))
	if ex.FrameChk {
		if base := truncatedAppendBase(cc.Args[0]); base != nil {
			goal := tTrue
			what := "append onto a truncated view overwrites only storage owned by the call"
			if owned, why := w.sliceStorageOwned(base); !owned {
				goal = tFalse
				what += " -- " + why
			}
			ex.oblige(fr, st, ex.obName(fr, "frame", ins), "frame", []string{"C18"}, "read-only frame: "+what, goal, posOf(ins))
		}
	}
	if isString(cc.Args[1].Type()) {
		// append([]byte, string...)
		s := ex.termOf(fr, st, bv, cc.Args[1].Type())
		na := ex.FreshVar("app", ArraySort(SInt, es))
		j := Var("j!a", SInt)
		st.Assume(Forall([]*T{j}, Implies(And(Ge(j, IntLit(0)), Lt(j, la)), Eq(Select(na, j), Select(arr, j)))))
		return Val{T: w.MkSlice(es, na, Add(la, App("str.len", SInt, s)), tFalse)}
	}
	// statically known small length
	if bv.Back != 0 && bv.BackLen.Kind == kInt {
		n := 0
		fmt.Sscanf(bv.BackLen.Op, "%d", &n)
		if n <= 8 {
			src := st.cells[bv.Back]
			for i := 0; i < n; i++ {
				arr = Store(arr, Add(la, IntLit(int64(i))), Select(src, Add(bv.BackOff, IntLit(int64(i)))))
			}
			nilr := tFalse
			if n == 0 {
				nilr = w.SliceIsNil(a)
			}
			return Val{T: w.MkSlice(es, arr, Add(la, IntLit(int64(n))), nilr)}
		}
	}
	b := ex.termOf(fr, st, bv, cc.Args[1].Type())
	lb := w.SliceLen(b)
	st.Assume(Ge(lb, IntLit(0)))
	barr := w.SliceArr(b, es)
	na := ex.FreshVar("app", ArraySort(SInt, es))
	j := Var("j!a", SInt)
	st.Assume(Forall([]*T{j}, Implies(And(Ge(j, IntLit(0)), Lt(j, la)), Eq(Select(na, j), Select(arr, j)))))
	st.Assume(Forall([]*T{j}, Implies(And(Ge(j, IntLit(0)), Lt(j, lb)), Eq(Select(na, Add(la, j)), Select(barr, j)))))
	// the same fact indexed from the result's side (matches on select(na, k))
	k := Var("k!a", SInt)
	st.Assume(Forall([]*T{k}, Implies(And(Ge(k, la), Lt(k, Add(la, lb))), Eq(Select(na, k), Select(barr, Sub(k, la)))), []*T{Select(na, k)}))
	return Val{T: w.MkSlice(es, na, Add(la, lb), And(w.SliceIsNil(a), Eq(lb, IntLit(0))))}
}

// ---------------- loops ----------------

func (ex *Ex) loopInvariants(fr *Frame, st *State, li *loopInfo) ([]*T, []*Clause) {
	var ts []*T
	var cs []*Clause
	if li.Spec == nil && li.Up == nil {
		return nil, nil
	}
	saved := fr.CurLoop
	fr.CurLoop = li
	defer func() { fr.CurLoop = saved }()
	if li.Spec != nil {
		for _, inv := range li.Spec.Invs {
			if len(inv.Props) > 0 && ex.Props != nil {
				want := false
				for _, p := range inv.Props {
					if ex.Props[p] {
						want = true
					}
				}
				if !want {
					continue // an invariant scoped to other properties
				}
			}
			env := ex.newEnv(fr, st)
			t, err := ex.trBool(env, inv.E)
			if err != nil {
				unsupp("loop %d invariant of %s: %v", li.Ord, fr.Name, err)
			}
			ts = append(ts, t)
			cs = append(cs, inv)
		}
	}
	if li.Up != nil {
		// invariants the inlining caller states about its own variables across the callee's loop
		for _, inv := range li.Up.Invs {
			if !ex.activeProps(inv.Props) {
				continue
			}
			env := ex.newEnv(li.UpFrame, st)
			t, err := ex.trBool(env, inv.E)
			if err != nil {
				unsupp("loop %s.%d invariant of %s: %v", fr.Fn.Name(), li.Ord, li.UpFrame.Name, err)
			}
			c := *inv
			c.Ord = 100 + inv.Ord
			if len(c.Props) == 0 && li.UpFrame.Ctr != nil {
				c.Props = li.UpFrame.Ctr.Props
			}
			ts = append(ts, t)
			cs = append(cs, &c)
		}
	}
	return ts, cs
}

// autoInvariant: facts about range-index loops that hold by construction.
func (ex *Ex) autoInvariant(fr *Frame, st *State, li *loopInfo) *T {
	var facts []*T
	for _, ins := range li.Header.Instrs {
		phi, ok := ins.(*ssa.Phi)
		if !ok {
			break
		}
		if phi.Comment != "rangeindex" {
			continue
		}
		// t = phi [-1, t+1]; cond t+1 < len
		var lenV ssa.Value
		for _, i2 := range li.Header.Instrs {
			if bo, ok := i2.(*ssa.BinOp); ok && bo.Op == token.LSS {
				lenV = bo.Y
			}
		}
		pv := st.regs[phi].T
		if pv == nil {
			continue
		}
		facts = append(facts, Ge(pv, IntLit(-1)))
		if lenV != nil {
			if _, ok := st.regs[lenV]; ok || isLazy(lenV) {
				lt := ex.termOf(fr, st, ex.val(fr, st, lenV), lenV.Type())
				facts = append(facts, Le(Add(pv, IntLit(1)), Ite(Ge(lt, IntLit(0)), lt, IntLit(0))))
				facts = append(facts, Ge(lt, IntLit(0)))
			}
		}
	}
	return And(facts...)
}

// invalidateLoopRegs forgets values computed inside the loop (they are stale w.r.t. the new phis).
func invalidateLoopRegs(st *State, li *loopInfo) {
	for bb := range li.Blocks {
		for _, ins := range bb.Instrs {
			if _, isPhi := ins.(*ssa.Phi); isPhi && bb == li.Header {
				continue
			}
			if v, ok := ins.(ssa.Value); ok {
				delete(st.regs, v)
			}
		}
	}
}

func (ex *Ex) loopEntry(fr *Frame, st *State, li *loopInfo, b, prev *ssa.BasicBlock) {
	w := ex.W
	ex.assignPhis(fr, st, b, prev)
	invalidateLoopRegs(st, li)
	// ghost init
	if li.Spec != nil {
		for _, g := range li.Spec.Ghosts {
			env := ex.newEnv(fr, st)
			v, err := ex.tr(env, g.Init)
			if err != nil {
				unsupp("ghost init: %v", err)
			}
			ty, err := w.ResolveType(g.Type, env.pkgName)
			if err != nil {
				unsupp("ghost type: %v", err)
			}
			v.Ty = ty
			st.ghost[g.Name] = v
		}
	}
	invs, cls := ex.loopInvariants(fr, st, li)
	for i, t := range invs {
		name := fmt.Sprintf("%s#loop%d.entry.%d", ex.topPrefix(fr), li.Ord, cls[i].Ord)
		if !ex.owesInvariant(fr, cls[i]) {
			st.Assume(t) // proved under the properties the contract names
			continue
		}
		ex.oblige(fr, st, name, "loopentry", ex.clauseProps(fr, cls[i]), "loop invariant holds on entry: "+cls[i].Text, t, b.Instrs[0].Pos())
	}
	if li.Spec != nil && li.Spec.Isolated && fr == ex.Top {
		// isolated loop: the body is verified once, from the invariants alone; every arriving
		// path then only continues through the exit
		if ex.isoDone == nil {
			ex.isoDone = map[*ssa.BasicBlock]bool{}
		}
		if !ex.isoDone[b] {
			ex.isoDone[b] = true
			sb := st.Clone()
			sb.dropBranchConds()
			if sb.loopMode == nil {
				sb.loopMode = map[*ssa.BasicBlock]int{}
			}
			sb.loopMode[b] = loopBodyOnly
			sb.trace = append(sb.trace, "isolated-loop-body")
			ex.loopFromHead(fr, sb, li, b)
		}
		if st.loopMode == nil {
			st.loopMode = map[*ssa.BasicBlock]int{}
		}
		st.loopMode[b] = loopExitOnly
	}
	ex.loopFromHead(fr, st, li, b)
}

// loopFromHead: havoc what the loop modifies, assume the invariants, continue from the header.
func (ex *Ex) loopFromHead(fr *Frame, st *State, li *loopInfo, b *ssa.BasicBlock) {
	ex.havocLoop(fr, st, li)
	invalidateLoopRegs(st, li)
	if li.Spec != nil {
		for _, g := range li.Spec.Ghosts {
			old := st.ghost[g.Name]
			st.ghost[g.Name] = SV{T: ex.FreshVar("ghost$"+g.Name, old.T.S), Ty: old.Ty}
		}
	}
	invs, _ := ex.loopInvariants(fr, st, li)
	for _, t := range invs {
		st.Assume(t)
	}
	st.Assume(ex.autoInvariant(fr, st, li))
	ex.execFrom(fr, st, b, firstNonPhi(b))
}

func (ex *Ex) loopBackEdge(fr *Frame, st *State, li *loopInfo, b, prev *ssa.BasicBlock) {
	ex.assignPhis(fr, st, b, prev)
	invalidateLoopRegs(st, li)
	if li.Spec != nil {
		// ghost step (simultaneous)
		nv := map[string]SV{}
		for _, g := range li.Spec.Ghosts {
			env := ex.newEnv(fr, st)
			v, err := ex.tr(env, g.Step)
			if err != nil {
				unsupp("ghost step: %v", err)
			}
			v.Ty = st.ghost[g.Name].Ty
			nv[g.Name] = v
		}
		for k, v := range nv {
			st.ghost[k] = v
		}
	}
	invs, cls := ex.loopInvariants(fr, st, li)
	for i, t := range invs {
		name := fmt.Sprintf("%s#loop%d.preserve.%d", ex.topPrefix(fr), li.Ord, cls[i].Ord)
		if !ex.owesInvariant(fr, cls[i]) {
			continue
		}
		ex.oblige(fr, st, name, "looppreserve", ex.clauseProps(fr, cls[i]), "loop invariant is preserved: "+cls[i].Text, t, b.Instrs[0].Pos())
	}
	// path ends here
}

// owesInvariant: an unscoped invariant of a function whose contract does not name the property
// under check is proved under the properties that contract names; here it is only assumed.
func (ex *Ex) owesInvariant(fr *Frame, c *Clause) bool {
	if ex.Props == nil {
		return true
	}
	ps := ex.clauseProps(fr, c)
	if len(ps) == 0 {
		return true
	}
	for _, p := range ps {
		if ex.Props[p] {
			return true
		}
	}
	return false
}

func (ex *Ex) clauseProps(fr *Frame, c *Clause) []string {
	if len(c.Props) > 0 {
		return c.Props
	}
	if fr.Ctr != nil {
		return fr.Ctr.Props
	}
	return nil
}

// havocLoop forgets everything the loop body may modify.
func (ex *Ex) havocLoop(fr *Frame, st *State, li *loopInfo) {
	w := ex.W
	for _, ins := range li.Header.Instrs {
		phi, ok := ins.(*ssa.Phi)
		if !ok {
			break
		}
		cur := st.regs[phi]
		if cur.T == nil {
			if cur.Back != 0 || cur.Ptr != nil || cur.Fn != nil {
				// loop-carried slice views / pointers: force to term
				t := ex.termOf(fr, st, cur, phi.Type())
				cur = Val{T: t}
			} else {
				unsupp("loop-carried value of unsupported kind in %s", fr.Name)
			}
		}
		st.regs[phi] = Val{T: ex.FreshVar("l$"+phi.Comment, cur.T.S)}
	}
	mods := map[string]bool{}
	cells := map[int]bool{}
	var blocks []*ssa.BasicBlock
	for bb := range li.Blocks {
		blocks = append(blocks, bb)
	}
	sort.Slice(blocks, func(i, j int) bool { return blocks[i].Index < blocks[j].Index })
	anyCall := false
	for _, bb := range blocks {
		for _, ins := range bb.Instrs {
			switch x := ins.(type) {
			case *ssa.Store:
				ex.modsOfAddr(fr, st, x.Addr, mods, cells)
			case *ssa.MapUpdate:
				mt := x.Map.Type().Underlying().(*types.Map)
				mods[mapHeapKey(w.SortOf(mt.Key()), w.SortOf(mt.Elem()))] = true
			case *ssa.Call:
				if _, isBuiltin := x.Call.Value.(*ssa.Builtin); !isBuiltin {
					anyCall = true
				}
				if callee := x.Call.StaticCallee(); callee != nil {
					for k := range w.modsOf(callee, 0) {
						mods[k] = true
					}
				}
				if b, ok := x.Call.Value.(*ssa.Builtin); ok && b.Name() == "delete" {
					mt := x.Call.Args[0].Type().Underlying().(*types.Map)
					mods[mapHeapKey(w.SortOf(mt.Key()), w.SortOf(mt.Elem()))] = true
				}
			}
		}
	}
	if anyCall {
		// ghost state written by calls in the loop body (output written so far, printer arguments,
		// callback count, captured stack level): unknown after an arbitrary number of iterations
		// unless an invariant says otherwise
		for _, gname := range []string{"$out", "$pargs", "$ptext", "$ncalls", "$cap", "$dom"} {
			if cur, ok := st.ghost[gname]; ok && cur.T != nil {
				st.ghost[gname] = SV{T: ex.FreshVar("lg"+gname, cur.T.S), Ty: cur.Ty}
			}
		}
		// closures invoked in the loop may write captured cells
		// (closures made in this frame or in any inlining frame up the chain: they can arrive
		// here as function-typed arguments)
		for a := fr; a != nil; a = a.Parent {
			if a.Fn == nil {
				continue
			}
			for _, bb := range a.Fn.Blocks {
				for _, ins := range bb.Instrs {
					if mc, ok := ins.(*ssa.MakeClosure); ok {
						cfn, _ := mc.Fn.(*ssa.Function)
						for bi, bnd := range mc.Bindings {
							if cfn != nil && bi < len(cfn.FreeVars) && freeVarReadOnly(cfn.FreeVars[bi]) {
								continue
							}
							if v, ok := st.regs[bnd]; ok && v.Ptr != nil && v.Ptr.Cell > 0 {
								cells[v.Ptr.Cell] = true
							}
						}
					}
				}
			}
			for bi, bv := range a.Bindings {
				if bi < len(a.Fn.FreeVars) && freeVarReadOnly(a.Fn.FreeVars[bi]) {
					continue
				}
				if bv.Ptr != nil && bv.Ptr.Cell > 0 {
					cells[bv.Ptr.Cell] = true
				}
			}
		}
	}
	var keys []string
	for k := range mods {
		keys = append(keys, k)
	}
	sort.Strings(keys)
	for _, k := range keys {
		if strings.HasPrefix(k, "G$") {
			continue
		}
		if cur, ok := st.heap[k]; ok {
			st.heap[k] = ex.FreshVar(k, cur.S)
		} else if s := w.heapSortOf(k); s != nil {
			st.heap[k] = ex.FreshVar(k, s)
		}
	}
	for g := range w.globalsIn(mods) {
		t := g.Type().(*types.Pointer).Elem()
		st.globals[g] = ex.FreshVar("G$"+mangle(w.shortName(g)), w.SortOf(t))
	}
	if v, ok := st.ghost["$visited"]; ok {
		for _, ins := range li.Header.Instrs {
			if _, isNext := ins.(*ssa.Next); isNext {
				st.ghost["$visited"] = SV{T: ex.FreshVar("visited", v.T.S), Ty: v.Ty}
			}
		}
	}
	var cids []int
	for c := range cells {
		cids = append(cids, c)
	}
	sort.Ints(cids)
	for _, c := range cids {
		if _, ok := st.mat[c]; ok {
			// the cell lives in the heap: forget the heap arrays of its type
			t := st.cellType[c]
			if stt, ok := t.Underlying().(*types.Struct); ok {
				for i := 0; i < stt.NumFields(); i++ {
					key := w.fieldHeapKey(t, stt, i)
					if cur, ok := st.heap[key]; ok && !mods[key] {
						st.heap[key] = ex.FreshVar(key, cur.S)
					}
				}
			} else {
				key := "P$" + w.SortOf(t).Mangle()
				if cur, ok := st.heap[key]; ok && !mods[key] {
					st.heap[key] = ex.FreshVar(key, cur.S)
				}
			}
			continue
		}
		if cur, ok := st.cells[c]; ok {
			st.cells[c] = ex.FreshVar("cell", cur.S)
		}
	}
}

// freeVarReadOnly: the closure only loads the captured variable, and never writes through a slice
// loaded from it (nested closures capturing it again are treated as writers).
func freeVarReadOnly(fv *ssa.FreeVar) bool {
	refs := fv.Referrers()
	if refs == nil {
		return false
	}
	for _, r := range *refs {
		ld, ok := r.(*ssa.UnOp)
		if !ok || ld.Op != token.MUL {
			return false
		}
		if _, isSlice := ld.Type().Underlying().(*types.Slice); isSlice {
			if lr := ld.Referrers(); lr != nil {
				for _, u := range *lr {
					switch u.(type) {
					case *ssa.IndexAddr, *ssa.Slice:
						return false
					}
				}
			}
		}
	}
	return true
}

// modsOfAddr: which cell / heap key a store address refers to.
func (ex *Ex) modsOfAddr(fr *Frame, st *State, addr ssa.Value, mods map[string]bool, cells map[int]bool) {
	w := ex.W
	switch a := addr.(type) {
	case *ssa.Alloc:
		if v, ok := st.regs[a]; ok && v.Ptr != nil && v.Ptr.Cell > 0 {
			cells[v.Ptr.Cell] = true
		}
	case *ssa.FieldAddr:
		pt := a.X.Type().Underlying().(*types.Pointer).Elem()
		stt := pt.Underlying().(*types.Struct)
		// local root?
		root := rootAlloc(a.X)
		if root != nil {
			if v, ok := st.regs[root]; ok && v.Ptr != nil && v.Ptr.Cell > 0 {
				cells[v.Ptr.Cell] = true
				if _, m := st.mat[v.Ptr.Cell]; !m {
					return
				}
			}
		}
		mods[w.fieldHeapKey(pt, stt, a.Field)] = true
	case *ssa.IndexAddr:
		root := rootAlloc(a.X)
		if root != nil {
			if v, ok := st.regs[root]; ok && v.Ptr != nil && v.Ptr.Cell > 0 {
				cells[v.Ptr.Cell] = true
				return
			}
		}
		if v, ok := st.regs[a.X]; ok && v.Back != 0 {
			cells[v.Back] = true
			return
		}
		if v, ok := st.regs[a.X]; ok && v.Origin != nil && v.Origin.Cell > 0 {
			cells[v.Origin.Cell] = true
			return
		}
		if ms, ok := a.X.(*ssa.MakeSlice); ok {
			if v, ok := st.regs[ms]; ok && v.Back != 0 {
				cells[v.Back] = true
			}
			return
		}
		// element of a slice defined in the loop or elsewhere: over-approximate by havocing all slice-backed cells
		for _, v := range st.regs {
			if v.Back != 0 {
				cells[v.Back] = true
			}
		}
	case *ssa.Global:
		mods["G$"+a.String()] = true
	case *ssa.FreeVar, *ssa.Parameter, *ssa.UnOp, *ssa.Phi, *ssa.Call, *ssa.Extract:
		if v, ok := st.regs[addr]; ok && v.Ptr != nil && v.Ptr.Cell > 0 {
			cells[v.Ptr.Cell] = true
			return
		}
		if fv, ok := addr.(*ssa.FreeVar); ok {
			if bv := ex.freeVarBinding(fr, fv); bv != nil && bv.Ptr != nil && bv.Ptr.Cell > 0 {
				cells[bv.Ptr.Cell] = true
				return
			}
		}
		if p, ok := addr.Type().Underlying().(*types.Pointer); ok {
			if stt, ok := p.Elem().Underlying().(*types.Struct); ok {
				for i := 0; i < stt.NumFields(); i++ {
					mods[w.fieldHeapKey(p.Elem(), stt, i)] = true
				}
			} else {
				mods["P$"+w.SortOf(p.Elem()).Mangle()] = true
			}
		}
	}
}

func (ex *Ex) freeVarBinding(fr *Frame, fv *ssa.FreeVar) *Val {
	for i, x := range fr.Fn.FreeVars {
		if x == fv && i < len(fr.Bindings) {
			return &fr.Bindings[i]
		}
	}
	return nil
}

func rootAlloc(v ssa.Value) *ssa.Alloc {
	for {
		switch x := v.(type) {
		case *ssa.Alloc:
			return x
		case *ssa.FieldAddr:
			v = x.X
		case *ssa.IndexAddr:
			v = x.X
		default:
			return nil
		}
	}
}

func (w *World) heapSortOf(key string) *Sort {
	return w.heapSorts[key]
}

func (w *World) globalsIn(mods map[string]bool) map[*ssa.Global]bool {
	out := map[*ssa.Global]bool{}
	for k := range mods {
		if strings.HasPrefix(k, "G$") {
			name := strings.TrimPrefix(k, "G$")
			for _, sp := range w.Pkgs {
				for _, m := range sp.Members {
					if g, ok := m.(*ssa.Global); ok && g.String() == name {
						out[g] = true
					}
				}
			}
		}
	}
	return out
}

// modsOf: heap keys possibly written by fn (transitively through module callees without contracts).
func (w *World) modsOf(fn *ssa.Function, depth int) map[string]bool {
	if m, ok := w.modsCache[fn]; ok {
		return m
	}
	m := map[string]bool{}
	w.modsCache[fn] = m
	if ctr := w.Contracts[fn]; ctr != nil && !ctr.Inline {
		w.assignsKeys(ctr, m)
		return m
	}
	if ec, ok := w.Externs[externKey(fn)]; ok {
		w.assignsKeys(ec, m)
		return m
	}
	if fn.Pkg == nil || !w.InModule(fn.Pkg.Pkg) || depth > 8 {
		return m
	}
	for _, b := range fn.Blocks {
		for _, ins := range b.Instrs {
			switch x := ins.(type) {
			case *ssa.Store:
				switch a := x.Addr.(type) {
				case *ssa.FieldAddr:
					if rootAlloc(a) != nil {
						continue
					}
					pt := a.X.Type().Underlying().(*types.Pointer).Elem()
					stt := pt.Underlying().(*types.Struct)
					m[w.fieldHeapKey(pt, stt, a.Field)] = true
				case *ssa.Global:
					m["G$"+a.String()] = true
				}
			case *ssa.MapUpdate:
				mt := x.Map.Type().Underlying().(*types.Map)
				m[mapHeapKey(w.SortOf(mt.Key()), w.SortOf(mt.Elem()))] = true
			case *ssa.Call:
				if c := x.Call.StaticCallee(); c != nil {
					for k := range w.modsOf(c, depth+1) {
						m[k] = true
					}
				}
			}
		}
	}
	return m
}

func (w *World) assignsKeys(ctr *Contract, m map[string]bool) {
	for _, a := range ctr.Assigns {
		for _, item := range strings.Split(a, ",") {
			item = strings.TrimSpace(item)
			switch {
			case strings.HasPrefix(item, "global "):
				name := strings.TrimSpace(strings.TrimPrefix(item, "global "))
				if sp := w.pkgByNameOne(ctr.PkgName); sp != nil {
					if g, ok := sp.Members[name].(*ssa.Global); ok {
						t := g.Type().(*types.Pointer).Elem()
						if mt, ok := t.Underlying().(*types.Map); ok {
							m[mapHeapKey(w.SortOf(mt.Key()), w.SortOf(mt.Elem()))] = true
						} else {
							m["G$"+g.String()] = true
						}
					}
				}
			case strings.HasPrefix(item, "heap "):
				spec := strings.TrimSpace(strings.TrimPrefix(item, "heap "))
				j := strings.LastIndex(spec, ".")
				if j < 0 {
					continue
				}
				tn, fn := spec[:j], spec[j+1:]
				te := &TypeExpr{Kind: "name", Name: tn}
				if k := strings.Index(tn, "."); k >= 0 {
					te = &TypeExpr{Kind: "name", Pkg: tn[:k], Name: tn[k+1:]}
				}
				ty, err := w.ResolveType(te, ctr.PkgName)
				if err != nil {
					continue
				}
				if stt, ok := ty.G.Underlying().(*types.Struct); ok {
					for i := 0; i < stt.NumFields(); i++ {
						if fn == "*" || stt.Field(i).Name() == fn {
							m[w.fieldHeapKey(ty.G, stt, i)] = true
						}
					}
				}
			}
		}
	}
}

// ---------------- map range ----------------

type rangeState struct {
	mapRef  *T
	visited *T // Array K Bool
	mt      *types.Map
}

func (ex *Ex) rangeInit(fr *Frame, st *State, x *ssa.Range) {
	mt, ok := x.X.Type().Underlying().(*types.Map)
	if !ok {
		unsupp("range over %s", x.X.Type())
	}
	m := ex.termOf(fr, st, ex.val(fr, st, x.X), x.X.Type())
	ks := ex.W.SortOf(mt.Key())
	vis := App("constfalse$"+ks.Mangle(), ArraySort(ks, SBool))
	st.regs[x] = Val{T: m}
	st.ghost["$visited"] = SV{T: vis, Ty: SType{Set: &SType{G: mt.Key()}}}
}

func (ex *Ex) rangeNext(fr *Frame, st *State, x *ssa.Next) {
	w := ex.W
	if x.IsString {
		unsupp("range over string")
	}
	r := x.Iter.(*ssa.Range)
	mt := r.X.Type().Underlying().(*types.Map)
	m := st.regs[r].T
	ks, vs := w.SortOf(mt.Key()), w.SortOf(mt.Elem())
	mv, _, _ := ex.mapContent(st, m, mt)
	vis := st.ghost["$visited"]
	ok := ex.FreshVar("rng$ok", SBool)
	k := ex.FreshVar("rng$k", ks)
	// if ok: k is an unvisited key currently in the map. (Go semantics: entries added during iteration may
	// or may not be visited; entries removed are not.) If !ok: every key in the map has been visited.
	st.Assume(Implies(ok, And(Not(Eq(m, NilRef)), MapHas(mv, ks, k), Not(Select(vis.T, k)))))
	q := Var("k!rng", ks)
	st.Assume(Implies(Not(ok), Or(Eq(m, NilRef), Forall([]*T{q}, Implies(MapHas(mv, ks, q), Select(vis.T, q))))))
	st.ghost["$k"] = SV{T: k, Ty: SType{G: mt.Key()}}
	st.ghost["$visited"] = SV{T: Ite(ok, Store(vis.T, k, tTrue), vis.T), Ty: vis.Ty}
	st.ghost["$visitedBefore"] = vis
	v := Select(mapGetArr(mv, ks, vs), k)
	st.regs[x] = Val{Tuple: []Val{{T: ok}, {T: k}, {T: v}}}
}
