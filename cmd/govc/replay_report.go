package main

// Replay template for the Sentry report contracts (C15): the property statement is re-stated as an
// executable oracle over a fixed family of trees (chains, multi-cause trees, trees without
// stacks, decoded trees) and compared with what BuildSentryReport returns.

import "strings"

func reportReplay(w *World, o *Obligation, q *Query, _ map[string]string) (string, string) {
	// frame obligations have their own replay vehicle (race detector / purity)
	if strings.Contains(o.Name, "#frame.") || strings.Contains(o.Name, "#sframe.") {
		return "", ""
	}
	src := `package errors_test

import (
	"context"
	"fmt"
	"reflect"
	"strings"
	"testing"

	"github.com/cockroachdb/errors"
	"github.com/cockroachdb/redact"
)

func verifPreorder(err error, f func(error)) {
	f(err)
	if c := errors.UnwrapOnce(err); c != nil {
		verifPreorder(c, f)
	}
	if m, ok := err.(interface{ Unwrap() []error }); ok && errors.UnwrapOnce(err) == nil {
		for _, c := range m.Unwrap() {
			verifPreorder(c, f)
		}
	}
}

func verifCut(s string) string {
	if len(s) > 120 {
		return s[:120]
	}
	return s
}

// Replay of obligation ` + o.Name + `
func TestVerifReplay(t *testing.T) {
	leaf := func(s string) error { return errors.New(s) }             // with stack
	bare := func(s string) error { return fmt.Errorf("%s", s) }        // no stack
	trees := map[string]error{
		"chain":            errors.Wrap(errors.WithDomain(leaf("a"), errors.NamedDomain("dom")), "w"),
		"nostack":          fmt.Errorf("outer: %w", bare("inner")),
		"join-last-stack":  errors.Join(bare("x"), leaf("y")),
		"spine-above-join": errors.WithStack(errors.Join(bare("x"), errors.Wrap(leaf("deep"), "mid"))),
		"wrapped-join":     fmt.Errorf("top: %w", errors.Join(leaf("p"), bare("q"), leaf("r"))),
		"secondary":        errors.WithSecondaryError(leaf("main"), leaf("second")),
		"nested-join":      errors.Join(errors.Wrap(errors.Join(leaf("a"), leaf("b")), "ctx"), leaf("c")),
	}
	var names []string
	for name := range trees {
		names = append(names, name)
	}
	for _, name := range names {
		trees[name+"/decoded"] = errors.DecodeError(context.Background(), errors.EncodeError(context.Background(), trees[name]))
	}
	bad := 0
	for name, err := range trees {
		ev, extras := errors.BuildSentryReport(err)
		if ev == nil {
			t.Errorf("%s: nil event", name)
			bad++
			continue
		}
		// message prefix
		want := redact.Sprintf("%+v", err).Redact().StripMarkers()
		if f, l, _, ok := errors.GetOneLineSource(err); ok {
			want = fmt.Sprintf("%s:%d: ", f, l) + want
		}
		if !strings.HasPrefix(ev.Message, want) {
			t.Errorf("%s: message does not begin with [innermost source] + redacted verbose rendering:\n got: %q\nwant prefix: %q", name, verifCut(ev.Message), verifCut(want))
			bad++
		}
		// one exception per layer with a stack, outermost first, module = domain
		var stacks []*errors.ReportableStackTrace
		n := 0
		verifPreorder(err, func(c error) {
			n++
			if st := errors.GetReportableStackTrace(c); st != nil {
				stacks = append(stacks, st)
			}
		})
		mod := string(errors.GetDomain(err))
		if len(stacks) == 0 {
			if len(ev.Exception) != 1 || ev.Exception[0].Stacktrace != nil || ev.Exception[0].Module != mod {
				t.Errorf("%s: expected exactly one synthetic exception with module %q, got %d", name, mod, len(ev.Exception))
				bad++
			}
		} else {
			if len(ev.Exception) != len(stacks) {
				t.Errorf("%s: %d exceptions for %d layers with a stack", name, len(ev.Exception), len(stacks))
				bad++
			} else {
				for k := range stacks {
					if !reflect.DeepEqual(ev.Exception[k].Stacktrace, stacks[k]) {
						t.Errorf("%s: exception %d does not carry the stack of the %d-th layer with a stack (outermost first)", name, k, k)
						bad++
					}
					if ev.Exception[k].Module != mod {
						t.Errorf("%s: exception %d has module %q, want the error's domain %q", name, k, ev.Exception[k].Module, mod)
						bad++
					}
				}
			}
		}
		if types, _ := extras["error types"].(string); strings.Count(types, "\n") != n {
			t.Errorf("%s: 'error types' has %d lines for %d layers", name, strings.Count(types, "\n"), n)
			bad++
		}
	}
	if ev, ex := errors.BuildSentryReport(nil); ev != nil || ex != nil {
		t.Errorf("nil error: non-nil report")
		bad++
	}
	if bad > 0 {
		t.Fatalf("REPLAY-CONFIRMED: %d deviation(s) from the report structure the property states", bad)
	}
}
`
	return ".", src
}

func init() {
	registerReplayFirst(`^report\.BuildSentryReport#|^report\.reverseExceptionOrder#|^report\.visitAllMulti#`, reportReplay)
}
