package main

// Replay template for C17: the counterexample of RegisterTypeMigration is a registry in which the
// declared previous name is itself a renamed type (prevKey is a key). The test registers such a
// chain of renames in both orders and compares the resulting type keys.

import "strings"

func migrationReplay(w *World, o *Obligation, q *Query, _ map[string]string) (string, string) {
	if !strings.HasPrefix(o.Name, "errbase.RegisterTypeMigration#") {
		return "", ""
	}
	src := `package errbase

import (
	"strings"
	"testing"
)

type verifMid struct{}

func (*verifMid) Error() string { return "mid" }

type verifNew struct{}

func (*verifNew) Error() string { return "new" }

func verifSplit(full string) (string, string) {
	i := strings.LastIndex(full, "/")
	return full[:i], full[i+1:]
}

// Replay of obligation ` + o.Name + `
// chained renames orig -> mid -> new, registered oldest-first and newest-first
func TestVerifReplay(t *testing.T) {
	midPkg, midName := verifSplit(getFullTypeName(&verifMid{}))
	want := TypeKey("orig/pkg/*pkg.T0")
	var got [2]TypeKey
	for order := 0; order < 2; order++ {
		restore := TestingWithEmptyMigrationRegistry()
		func() {
			defer restore()
			if order == 0 {
				RegisterTypeMigration("orig/pkg", "*pkg.T0", &verifMid{})
				RegisterTypeMigration(midPkg, midName, &verifNew{})
			} else {
				RegisterTypeMigration(midPkg, midName, &verifNew{})
				RegisterTypeMigration("orig/pkg", "*pkg.T0", &verifMid{})
			}
			got[order] = GetTypeKey(&verifNew{})
		}()
	}
	t.Logf("oldest-first: %q newest-first: %q", got[0], got[1])
	if got[0] != got[1] || got[0] != want {
		t.Fatalf("REPLAY-CONFIRMED: the type key of the twice-renamed type depends on the registration order: oldest-first %q, newest-first %q, original name %q", got[0], got[1], want)
	}
}
`
	return "errbase", src
}

func init() {
	registerReplayFirst(`^errbase\.RegisterTypeMigration#`, migrationReplay)
}
