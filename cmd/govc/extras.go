package main

// Hard-coded models of a few dependency functions, registries, frame checks, ghost levels.

import (
	"fmt"
	"go/token"
	"go/types"
	"strings"

	"golang.org/x/tools/go/ssa"
)

// hardcoded handles dependency functions whose semantics need SMT theories (strings) or
// the dynamic-type encoding. Everything here is part of the trusted base (T7).
func (ex *Ex) hardcoded(fr *Frame, st *State, ins ssa.Instruction, callee *ssa.Function, args []Val, k func(*State, Val)) bool {
	w := ex.W
	name := callee.String()
	targ := func(i int) *T { return ex.termOf(fr, st, args[i], callee.Params[i].Type()) }
	switch name {
	case "github.com/cockroachdb/redact.Safe":
		// C03 sink: whatever the library itself declares safe must be provably built from
		// PII-free sources. Constants are PII-free by construction.
		if ex.Props == nil || ex.Props["C03"] {
			if call, ok := ins.(*ssa.Call); ok && !isConstOperand(call.Call.Args[0]) {
				goal := App("f$safeAny", SBool, targ(0))
				ex.oblige(fr, st, ex.obName(fr, "safe", ins), "safe", []string{"C03"}, "argument of redact.Safe is built from PII-free sources only", goal, posOf(ins))
			}
		}
		return false
	case "strings.HasSuffix":
		ex.note("extern axiom: strings.HasSuffix == str.suffixof")
		k(st, Val{T: App("str.suffixof", SBool, targ(1), targ(0))})
		return true
	case "strings.HasPrefix":
		ex.note("extern axiom: strings.HasPrefix == str.prefixof")
		k(st, Val{T: App("str.prefixof", SBool, targ(1), targ(0))})
		return true
	case "strings.Contains":
		ex.note("extern axiom: strings.Contains == str.contains")
		k(st, Val{T: App("str.contains", SBool, targ(0), targ(1))})
		return true
	case "reflect.TypeOf", "internal/reflectlite.TypeOf":
		ex.note("extern axiom: reflect.TypeOf(x) is determined by the dynamic type of x (nil for nil)")
		x := targ(0)
		rt := MkIface(App("T$reflect.rtype", SInt), App("rtref", SRef, Dyn(x)))
		w.ensureTypeConst("T$reflect.rtype")
		st.Assume(Eq(App("rtid", SInt, App("rtref", SRef, Dyn(x))), Dyn(x)))
		k(st, Val{T: Ite(IfaceIsNil(x), NilIface, rt)})
		return true
	case "(*strings.Builder).WriteString", "(*strings.Builder).WriteByte", "(*strings.Builder).WriteRune", "(*strings.Builder).String", "(*strings.Builder).Len",
		"(*bytes.Buffer).WriteString", "(*bytes.Buffer).WriteByte", "(*bytes.Buffer).WriteRune", "(*bytes.Buffer).Write", "(*bytes.Buffer).String", "(*bytes.Buffer).Len", "(*bytes.Buffer).Bytes", "(*bytes.Buffer).Reset", "(*bytes.Buffer).Truncate":
		// strings.Builder / bytes.Buffer (T7): the content is a function of the buffer value; writes
		// append, Reset empties, Truncate forgets
		bt := callee.Params[0].Type().(*types.Pointer).Elem()
		if args[0].Ptr == nil && args[0].T == nil {
			break
		}
		bv := ex.loadFrom(fr, st, args[0], bt, nil).T
		if bv == nil {
			break
		}
		ex.note("extern model: strings.Builder / bytes.Buffer content is the concatenation of what was written (T7)")
		content := App(contentSym(bt), SString, bv)
		st.Assume(Eq(App(contentSym(bt), SString, w.Zero(bt)), StrLit("")))
		setContent := func(c *T) {
			nb := ex.FreshVar("sb", w.SortOf(bt))
			if c != nil {
				st.Assume(Eq(App(contentSym(bt), SString, nb), c))
			}
			ex.storeTo(fr, st, args[0], Val{T: nb}, bt, nil)
			res, _ := ex.freshResults(callee.Name(), callee.Signature)
			k(st, res)
		}
		switch callee.Name() {
		case "String":
			k(st, Val{T: content})
		case "Len":
			k(st, Val{T: App("str.len", SInt, content)})
		case "Bytes":
			bs := App("bytesOf", w.sliceSort(SInt), content)
			st.Assume(And(Eq(w.SliceLen(bs), App("str.len", SInt, content)), Not(w.SliceIsNil(bs))))
			k(st, Val{T: bs})
		case "Reset":
			setContent(StrLit(""))
		case "Truncate":
			setContent(nil)
		case "WriteString":
			ex.redactableSink(fr, st, ins, args[0], targ(1))
			setContent(App("str.++", SString, content, targ(1)))
		case "Write":
			piece := App("stringOf$"+w.sliceSort(SInt).Mangle(), SString, targ(1))
			ex.redactableSink(fr, st, ins, args[0], piece)
			setContent(App("str.++", SString, content, piece))
		default:
			ct := targ(1)
			var piece *T
			if ct.Kind == kInt {
				// a constant byte / rune of the program text: the one-character literal
				n := 0
				fmt.Sscanf(ct.Op, "%d", &n)
				piece = StrLit(string(rune(n)))
			} else {
				piece = App("f$charStr", SString, ct)
				st.Assume(Eq(App("str.len", SInt, piece), IntLit(1)))
			}
			setContent(App("str.++", SString, content, piece))
		}
		return true
	case "io.WriteString", "io.Copy":
		// io.WriteString(&buf, s): append; io.Copy(dst, &buf): the buffer is drained into dst (ghost
		// $out: what has been handed to the destination writer so far)
		call, ok := ins.(*ssa.Call)
		if !ok {
			break
		}
		bi := 0
		if name == "io.Copy" {
			bi = 1
		}
		mi, ok := call.Call.Args[bi].(*ssa.MakeInterface)
		if !ok || (mi.X.Type().String() != "*strings.Builder" && mi.X.Type().String() != "*bytes.Buffer") {
			break
		}
		bt := mi.X.Type().(*types.Pointer).Elem()
		pv := ex.val(fr, st, mi.X)
		bv := ex.loadFrom(fr, st, pv, bt, nil).T
		if bv == nil {
			break
		}
		st.Assume(Eq(App(contentSym(bt), SString, w.Zero(bt)), StrLit("")))
		content := App(contentSym(bt), SString, bv)
		nb := ex.FreshVar("sb", w.SortOf(bt))
		if name == "io.WriteString" {
			st.Assume(Eq(App(contentSym(bt), SString, nb), App("str.++", SString, content, targ(1))))
		} else {
			st.Assume(Eq(App(contentSym(bt), SString, nb), StrLit("")))
			if out, ok := st.ghost["$out"]; ok {
				st.ghost["$out"] = SV{T: App("str.++", SString, out.T, content), Ty: out.Ty}
			}
		}
		ex.note("extern model: io.WriteString / io.Copy on a *bytes.Buffer (T7)")
		ex.storeTo(fr, st, pv, Val{T: nb}, bt, nil)
		res, _ := ex.freshResults(callee.Name(), callee.Signature)
		k(st, res)
		return true
	case "fmt.Fprintf", "fmt.Fprint":
		// writes to a *strings.Builder: append the formatted text (other writers: not modelled)
		call, ok := ins.(*ssa.Call)
		if !ok {
			break
		}
		mi, ok := call.Call.Args[0].(*ssa.MakeInterface)
		if !ok || (mi.X.Type().String() != "*strings.Builder" && mi.X.Type().String() != "*bytes.Buffer") {
			// some other writer (the caller's fmt.State): the text is appended to the ghost $out
			out, has := st.ghost["$out"]
			vi := 1
			if name == "fmt.Fprintf" {
				vi = 2
			}
			av := args[vi]
			n := -1
			if av.Back != 0 && av.BackLen.Kind == kInt {
				fmt.Sscanf(av.BackLen.Op, "%d", &n)
			}
			if !has || n < 0 || name != "fmt.Fprintf" {
				break
			}
			ts := []*T{targ(1)}
			for i := 0; i < n; i++ {
				ts = append(ts, Select(st.cells[av.Back], Add(av.BackOff, IntLit(int64(i)))))
			}
			ex.note("extern model: fmt.Fprintf to the caller's writer appends Sprintf of the arguments to the ghost output $out (T7)")
			st.ghost["$out"] = SV{T: App("str.++", SString, out.T, App(fmt.Sprintf("f$sprintf%d", n), SString, ts...)), Ty: out.Ty}
			res, _ := ex.freshResults("Fprintf", callee.Signature)
			k(st, res)
			return true
		}
		bt := mi.X.Type().(*types.Pointer).Elem()
		pv := ex.val(fr, st, mi.X)
		bv := ex.loadFrom(fr, st, pv, bt, nil).T
		if bv == nil {
			break
		}
		var text *T
		vi := 1
		if name == "fmt.Fprintf" {
			vi = 2
		}
		av := args[vi]
		n := -1
		if av.Back != 0 && av.BackLen.Kind == kInt {
			fmt.Sscanf(av.BackLen.Op, "%d", &n)
		}
		if n < 0 {
			break
		}
		var ts []*T
		if name == "fmt.Fprintf" {
			ts = append(ts, targ(1))
		}
		for i := 0; i < n; i++ {
			ts = append(ts, Select(st.cells[av.Back], Add(av.BackOff, IntLit(int64(i)))))
		}
		if name == "fmt.Fprintf" {
			text = App(fmt.Sprintf("f$sprintf%d", n), SString, ts...)
		} else if n == 1 {
			text = App("f$fmtV", SString, ts[0])
		} else {
			text = App(fmt.Sprintf("f$sprint%d", n), SString, ts...)
		}
		ex.redactableSink(fr, st, ins, pv, text)
		ex.note("extern model: fmt.Fprintf/Fprint to a *strings.Builder / *bytes.Buffer appends Sprintf/Sprint of the arguments (T7)")
		st.Assume(Eq(App(contentSym(bt), SString, w.Zero(bt)), StrLit("")))
		nb := ex.FreshVar("sb", w.SortOf(bt))
		st.Assume(Eq(App(contentSym(bt), SString, nb), App("str.++", SString, App(contentSym(bt), SString, bv), text)))
		ex.storeTo(fr, st, pv, Val{T: nb}, bt, nil)
		res, _ := ex.freshResults("Fprint", callee.Signature)
		k(st, res)
		return true
	case "runtime.Callers":
		// ghost frame level (DESIGN §2.6): Callers(skip) called at level L records level L-skip+1 first
		ex.note("extern axiom: runtime.Callers(skip, pc) called at frame level L records the frame at level L-(skip-1) first (logical frames, inlining-aware)")
		if fr.Lvl != nil {
			st.ghost["$cap"] = SV{T: Add(Sub(fr.Lvl, targ(0)), IntLit(1)), Ty: tInt}
		}
		n := ex.FreshVar("r$Callers", SInt)
		st.Assume(And(Ge(n, IntLit(0)), Le(n, w.SliceLen(targ(1)))))
		k(st, Val{T: n})
		return true
	case "runtime.Caller":
		ex.note("extern axiom: runtime.Caller(skip) called at frame level L denotes the frame at level L-skip")
		if fr.Lvl != nil {
			st.ghost["$dom"] = SV{T: Sub(fr.Lvl, targ(0)), Ty: tInt}
		}
		res, _ := ex.freshResults("Caller", callee.Signature)
		if fr.Lvl != nil && len(res.Tuple) == 4 {
			// the file name is a function of the denoted frame (callerFile in the spec language)
			res.Tuple[1] = Val{T: App("f$callerFile", SString, Sub(fr.Lvl, targ(0)))}
		}
		k(st, res)
		return true
	case "fmt.Sprintf":
		ex.note("extern: fmt.Sprintf is an uninterpreted function of its format and arguments (axioms in prelude for fixed formats)")
		f := targ(0)
		av := args[1]
		if av.Back != 0 && av.BackLen.Kind == kInt {
			n := 0
			fmt.Sscanf(av.BackLen.Op, "%d", &n)
			ts := []*T{f}
			for i := 0; i < n; i++ {
				ts = append(ts, Select(st.cells[av.Back], Add(av.BackOff, IntLit(int64(i)))))
			}
			k(st, Val{T: App(fmt.Sprintf("f$sprintf%d", n), SString, ts...)})
			return true
		}
		if av.T != nil || av.IsZero() {
			// nil / symbolic varargs
			if av.IsZero() || (av.T.Kind == kApp && len(av.T.Args) == 3 && av.T.Args[1].String() == "0") {
				k(st, Val{T: App("f$sprintf0", SString, f)})
				return true
			}
			k(st, Val{T: App("f$sprintfN", SString, f, av.T)})
			return true
		}
	}
	return false
}

func (w *World) ensureTypeConst(name string) {
	if w.extraTypeConsts == nil {
		w.extraTypeConsts = map[string]int{}
	}
	if _, ok := w.extraTypeConsts[name]; !ok {
		w.extraTypeConsts[name] = 1000000 + len(w.extraTypeConsts)
	}
}

// reflect.Type method calls
func (ex *Ex) reflectInvoke(fr *Frame, st *State, recv *T, method string, args []SV) (*T, bool) {
	id := App("rtid", SInt, ValOf(recv))
	switch method {
	case "Comparable":
		return App("comparable", SBool, id), true
	case "Elem":
		el := App("f$elemT", SInt, id)
		return MkIface(App("T$reflect.rtype", SInt), App("rtref", SRef, el)), true
	case "String":
		return App("x$typeString", SString, id), true
	case "PkgPath":
		return App("x$typePkgPath", SString, id), true
	case "Implements":
		return App("x$implements", SBool, id, App("rtid", SInt, ValOf(args[0].T))), true
	case "AssignableTo":
		return App("f$assignableT", SBool, id, App("rtid", SInt, ValOf(args[0].T))), true
	}
	return nil, false
}

// uniformCall: contracts every function value of a given shape must be called under.
func (ex *Ex) uniformCall(fr *Frame, st *State, ins ssa.Instruction, cc *ssa.CallCommon, ft *T, args []Val, k func(*State, Val)) bool {
	sig := cc.Signature()
	// special-case printers (errbase.RegisterSpecialCasePrinter): func(err error, p Printer, isLeaf bool) (bool, error).
	// Uniform precondition: isLeaf means the error has no cause at all - neither a single cause nor
	// multi-cause branches (a "leaf" whose text may be printed as safe must own its whole text).
	if sig.Params().Len() == 3 && sig.Results().Len() == 2 && sig.Params().At(0).Type().String() == "error" &&
		strings.HasSuffix(sig.Params().At(1).Type().String(), "errbase.Printer") && sig.Params().At(2).Type().String() == "bool" {
		if ex.Props == nil || ex.Props["C03"] {
			e := ex.termOf(fr, st, args[0], cc.Args[0].Type())
			leaf := ex.termOf(fr, st, args[2], cc.Args[2].Type())
			causes := App("f$causes", ex.W.sliceSort(SIface), e)
			goal := Implies(leaf, And(IfaceIsNil(App("f$cause1", SIface, e)), Eq(ex.W.SliceLen(causes), IntLit(0))))
			name := fmt.Sprintf("%s#specialcase.leaf", ex.topPrefix(fr))
			ex.oblige(fr, st, name, "callpre", []string{"C03"}, "a special-case printer is told isLeaf only for errors without any cause (single or multi)", goal, posOf(ins))
		}
	}
	return false
}

func (ex *Ex) registryLookupFacts(fr *Frame, st *State, x *ssa.Lookup, v *T, has *T) {}

// ---------------- frame checks (C18) ----------------

func (ex *Ex) frameViolation(fr *Frame, st *State, ins ssa.Instruction, what string) {
	ex.oblige(fr, st, ex.obName(fr, "frame", ins), "frame", []string{"C18"}, "read-only frame: "+what, tFalse, posOf(ins))
}

// frameOwned: r is an object this call may write to: allocated during the call (not alloc0), or
// a declared output of the function under verification, i.e. one of its own pointer / map
// parameters whose pointee is not an error type (a *state, a *printer, the seen-map of the hint
// collector ...). Error objects are never outputs: a method of an error type gets no licence to
// write its receiver.
func (ex *Ex) frameOwned(st *State, r *T) *T {
	alts := []*T{Not(App("alloc0", SBool, r))}
	top := ex.Top
	if top != nil && top.Fn != nil && top.Entry != nil {
		for _, p := range top.Fn.Params {
			switch u := p.Type().Underlying().(type) {
			case *types.Pointer:
				if ex.W.isErrorStruct(u.Elem()) {
					continue
				}
			case *types.Map:
			default:
				continue
			}
			if v, ok := top.Entry.regs[p]; ok && v.T != nil && v.T.S.Eq(SRef) {
				alts = append(alts, Eq(r, v.T))
			}
		}
	}
	return Or(alts...)
}

// isErrorStruct: a named type T such that T or *T implements error (the objects the property is about)
func (w *World) isErrorStruct(t types.Type) bool {
	t = types.Unalias(t)
	if _, ok := t.(*types.Named); !ok {
		return false
	}
	errT := types.Universe.Lookup("error").Type().Underlying().(*types.Interface)
	return types.Implements(t, errT) || types.Implements(types.NewPointer(t), errT)
}

// perCallState: struct types that exist only for the duration of one formatting / printing call
// (created by the engine itself); the slices they hold are their own (A18.1).
func perCallState(t types.Type) bool {
	s := t.String()
	return strings.HasSuffix(s, "errbase.state") || strings.HasSuffix(s, "errbase.printer") || strings.HasSuffix(s, "errbase.safePrinter")
}

func (ex *Ex) frameStoreCheck(fr *Frame, st *State, ins ssa.Instruction, l *Loc) {
	what := "store through a pointer that is neither allocated in this call nor a declared output"
	if l.Pointee != nil {
		what += " (pointee " + ex.W.shortType(l.Pointee) + ")"
	}
	goal := ex.frameOwned(st, l.Ref)
	// a declared output licenses writes to the object's own fields, not to what its slice fields
	// refer to: an element write through a slice stored in the object needs the slice itself to be
	// owned (structural rule on the store's address), unless the object is per-call engine state
	elem := false
	for _, stp := range l.Path {
		if stp.IsSliceElem {
			elem = true
		}
	}
	if elem && l.Pointee != nil && !perCallState(l.Pointee) {
		if sti, ok := ins.(*ssa.Store); ok {
			if owned, why := ex.W.ownedRootStrict(sti.Addr); !owned {
				goal = Not(App("alloc0", SBool, l.Ref))
				what = "element write through a slice held by an object that this call does not own (" + why + ")"
			}
		}
	}
	ex.oblige(fr, st, ex.obName(fr, "frame", ins), "frame", []string{"C18"}, "read-only frame: "+what, goal, posOf(ins))
}

func (ex *Ex) frameMapCheck(fr *Frame, st *State, ins ssa.Instruction, m *T) {
	ex.oblige(fr, st, ex.obName(fr, "frame", ins), "frame", []string{"C18"}, "read-only frame: update of a map that is neither allocated in this call nor a declared output", ex.frameOwned(st, m), posOf(ins))
}

// frameArgsCheck: a module callee may write through its own pointer / map parameters (they are its
// declared outputs); the caller must own what it passes there.
func (ex *Ex) frameArgsCheck(fr *Frame, st *State, ins ssa.Instruction, callee *ssa.Function, args []Val) {
	if !ex.FrameChk || callee == nil {
		return
	}
	inMod := callee.Pkg != nil && ex.W.InModule(callee.Pkg.Pkg)
	if !inMod {
		return
	}
	for i, p := range callee.Params {
		if i >= len(args) {
			break
		}
		switch u := p.Type().Underlying().(type) {
		case *types.Pointer:
			if ex.W.isErrorStruct(u.Elem()) {
				continue // the callee has no licence to write it (checked on the callee)
			}
		case *types.Map:
		default:
			continue
		}
		if !ex.W.mayWriteParam(callee, i, 0) {
			continue // the callee (transitively) never stores through this parameter
		}
		a := args[i]
		if a.Ptr != nil && a.Ptr.Cell > 0 {
			if _, mat := st.mat[a.Ptr.Cell]; !mat {
				continue // address of a local of this call
			}
		}
		t := ex.termOf(fr, st, a, p.Type())
		if t == nil || !t.S.Eq(SRef) {
			continue
		}
		name := fmt.Sprintf("%s.arg%d", ex.obName(fr, "frame", ins), i)
		ex.oblige(fr, st, name, "frame", []string{"C18"}, "read-only frame: "+ex.W.funcName(callee)+" may write through its parameter "+p.Name()+"; the argument must be owned by this call", Or(Eq(t, NilRef), ex.frameOwned(st, t)), posOf(ins))
	}
}

// ---------------- ghost frame levels (C16) ----------------

func (ex *Ex) assumeLevelPost(cf *Frame, st *State, ctr *Contract, args []Val, results []SV) {}
func (ex *Ex) checkLevelPost(fr *Frame, st *State, ctr *Contract, results []SV)              {}

var _ = types.Typ

// isConstOperand: a constant, possibly converted / boxed.
func isConstOperand(v ssa.Value) bool {
	for i := 0; i < 6; i++ {
		switch x := v.(type) {
		case *ssa.Const:
			return true
		case *ssa.MakeInterface:
			v = x.X
		case *ssa.ChangeType:
			v = x.X
		case *ssa.Convert:
			v = x.X
		case *ssa.ChangeInterface:
			v = x.X
		default:
			return false
		}
	}
	return false
}

// mayWriteParam: syntactic summary over SSA - does fn (or a module function it hands the value to)
// store through parameter i, i.e. is there a Store / MapUpdate whose address derives from the
// parameter by field / element addressing, slicing, loads of slices or phis, or is the parameter
// (or something derived from it) passed on to a callee that may write it, stored somewhere, or
// captured by a closure. External callees are assumed not to write through their arguments
// except the mutating methods of bytes.Buffer / strings.Builder.
func (w *World) mayWriteParam(fn *ssa.Function, i int, depth int) bool {
	if w.writeSummary == nil {
		w.writeSummary = map[string]int{}
	}
	key := fmt.Sprintf("%s#%d", fn.String(), i)
	if v, ok := w.writeSummary[key]; ok {
		switch v {
		case 1:
			return true
		case 2:
			return false
		default: // in progress: a recursive cycle is cut here; negative results computed under a
			// cut are not cached (they are re-derived when asked for at top level)
			w.writeCuts++
			return false
		}
	}
	if i >= len(fn.Params) || len(fn.Blocks) == 0 {
		return len(fn.Blocks) == 0 && (fn.Pkg != nil && w.InModule(fn.Pkg.Pkg))
	}
	if depth > 8 {
		return true
	}
	w.writeSummary[key] = 0
	cuts := w.writeCuts
	res := w.derivedWritten(fn, fn.Params[i], depth)
	switch {
	case res:
		w.writeSummary[key] = 1
	case w.writeCuts == cuts || depth == 0:
		w.writeSummary[key] = 2
	default:
		delete(w.writeSummary, key)
	}
	return res
}

func (w *World) derivedWritten(fn *ssa.Function, root ssa.Value, depth int) bool {
	derived := map[ssa.Value]bool{root: true}
	work := []ssa.Value{root}
	for len(work) > 0 {
		v := work[len(work)-1]
		work = work[:len(work)-1]
		refs := v.Referrers()
		if refs == nil {
			continue
		}
		for _, r := range *refs {
			switch x := r.(type) {
			case *ssa.Store:
				if x.Addr == v {
					return true
				}
				if x.Val == v {
					return true // escapes into memory: give up (conservative)
				}
			case *ssa.MapUpdate:
				if x.Map == v {
					return true
				}
				if x.Value == v || x.Key == v {
					return true
				}
			case *ssa.FieldAddr, *ssa.IndexAddr, *ssa.Slice, *ssa.Phi, *ssa.ChangeType, *ssa.Convert:
				nv := r.(ssa.Value)
				if _, basic := nv.Type().Underlying().(*types.Basic); basic {
					continue // a scalar copied out of the object carries no reference
				}
				if !derived[nv] {
					derived[nv] = true
					work = append(work, nv)
				}
			case *ssa.UnOp:
				// loading a slice / pointer / map out of the object: what it refers to belongs to
				// the same object graph
				if x.Op == token.MUL {
					switch x.Type().Underlying().(type) {
					case *types.Slice, *types.Pointer, *types.Map:
						if !derived[x] {
							derived[x] = true
							work = append(work, x)
						}
					}
				}
			case *ssa.MakeClosure:
				return true
			case *ssa.MakeInterface:
				// boxed and handed on: only matters when passed to a module callee as a non-error
				// interface; conservative
				nv := r.(ssa.Value)
				if !derived[nv] {
					derived[nv] = true
					work = append(work, nv)
				}
			case *ssa.Call:
				cc := x.Common()
				callee := cc.StaticCallee()
				if cc.IsInvoke() {
					if cc.Value == v {
						continue // method call on an interface we hold: reads it
					}
					continue
				}
				if b, ok := cc.Value.(*ssa.Builtin); ok {
					switch b.Name() {
					case "len", "cap", "print", "println", "min", "max":
						continue
					case "copy":
						if len(cc.Args) > 0 && cc.Args[0] == v {
							return true
						}
						continue
					case "append":
						if len(cc.Args) > 0 && cc.Args[0] == v {
							return true // may write the spare capacity of the shared backing array
						}
						continue
					default:
						return true
					}
				}
				if callee == nil {
					if c := w.Contracts[fn]; c != nil && (c.PureCalls || len(c.PureFns) > 0) {
						continue // T6: function values called here are pure (registry entries)
					}
					return true // dynamic call with our value as argument
				}
				inMod := callee.Pkg != nil && w.InModule(callee.Pkg.Pkg)
				for ai, a := range cc.Args {
					if a != v {
						continue
					}
					if inMod {
						if w.mayWriteParam(callee, ai, depth+1) {
							return true
						}
					} else if ai == 0 && callee.Signature.Recv() != nil {
						rt := callee.Signature.Recv().Type().String()
						if (rt == "*bytes.Buffer" || rt == "*strings.Builder") && (strings.HasPrefix(callee.Name(), "Write") || callee.Name() == "Reset" || callee.Name() == "Truncate" || callee.Name() == "Grow") {
							return true
						}
					}
				}
			case *ssa.Defer, *ssa.Go:
				return true
			}
		}
	}
	return false
}

// redactableSink (C06): a write into (*errbase.state).finalBuf while the state renders redactable
// output must append a well-formed redactable fragment (wfR). finalBuf is what finishDisplay hands
// to redact as RedactableBytes, so this is the place where raw unsafe bytes would escape.
func (ex *Ex) redactableSink(fr *Frame, st *State, ins ssa.Instruction, target Val, piece *T) {
	// Superseded: the discipline is carried by content postconditions (wfR(sbContent(finalBuf)) is
	// preserved by every function that writes the buffer and required by finishDisplay). Per-write
	// obligations over-demand in formatErrorInternal's refusal branch, whose buffer is written to
	// the fmt.State as raw (hence escaped-by-redact) bytes and never handed over as RedactableBytes.
	if true {
		return
	}
	if !(ex.Props == nil || ex.Props["C06"]) || ins == nil {
		return
	}
	if ex.OnlyKinds != nil && !ex.OnlyKinds["wfr"] {
		return
	}
	l := target.Ptr
	if l == nil || len(l.Path) != 1 || l.Pointee == nil {
		return
	}
	stt, ok := l.Pointee.Underlying().(*types.Struct)
	if !ok || !strings.HasSuffix(ex.W.shortType(l.Pointee), "errbase.state") {
		return
	}
	if l.Path[0].Field >= stt.NumFields() || stt.Field(l.Path[0].Field).Name() != "finalBuf" {
		return
	}
	ri := -1
	for i := 0; i < stt.NumFields(); i++ {
		if stt.Field(i).Name() == "redactableOutput" {
			ri = i
		}
	}
	if ri < 0 {
		return
	}
	base := *l
	base.Path = []Step{{Field: ri, St: stt, Elem: stt.Field(ri).Type()}}
	red := ex.loadFrom(fr, st, Val{Ptr: &base}, stt.Field(ri).Type(), nil).T
	if red == nil {
		return
	}
	goal := Implies(red, App("f$wfR", SBool, piece))
	ex.oblige(fr, st, ex.obName(fr, "wfr", ins), "wfr", []string{"C06"}, "what is appended to the redactable output buffer is a well-formed redactable fragment (escaped, produced by redact, or marker-free program text)", goal, posOf(ins))
}

// contentSym: the content function of strings.Builder / bytes.Buffer values (one symbol per type)
func contentSym(bt types.Type) string {
	if strings.HasSuffix(bt.String(), "bytes.Buffer") {
		return "f$bbContent"
	}
	return "f$sbContent"
}

// redactableConversionSink: a conversion of a plain string / byte slice to redact.RedactableString
// / RedactableBytes DECLARES the text to be a redactable string. Under C03 the text must keep its
// PII inside markers (rsafe); under C06 it must be a well-formed redactable fragment (wfR).
// Conversions whose result is only stripped of its markers again declare nothing and are skipped.
func (ex *Ex) redactableConversionSink(fr *Frame, st *State, x *ssa.ChangeType) {
	tn := x.Type().String()
	if !strings.HasSuffix(tn, "redact.RedactableString") && !strings.HasSuffix(tn, "redact.RedactableBytes") && !strings.HasSuffix(tn, "markers.RedactableString") && !strings.HasSuffix(tn, "markers.RedactableBytes") {
		return
	}
	if x.X.Type().String() == x.Type().String() {
		return
	}
	if ex.OnlyKinds != nil && !ex.OnlyKinds["redactable"] {
		return
	}
	if refs := x.Referrers(); refs != nil {
		onlyStrip := len(*refs) > 0
		for _, r := range *refs {
			c, ok := r.(*ssa.Call)
			if !ok || c.Call.StaticCallee() == nil || c.Call.StaticCallee().Name() != "StripMarkers" {
				if _, isDbg := r.(*ssa.DebugRef); isDbg {
					continue
				}
				onlyStrip = false
			}
		}
		if onlyStrip {
			return
		}
	}
	v := ex.termOf(fr, st, ex.val(fr, st, x.X), x.X.Type())
	if v == nil {
		return
	}
	text := v
	if !v.S.Eq(SString) {
		text = App("stringOf$"+v.S.Mangle(), SString, v)
	}
	if ex.Props == nil || ex.Props["C03"] {
		ex.oblige(fr, st, ex.obName(fr, "redactable", x), "redactable", []string{"C03"}, "text converted to a redactable string keeps its PII-bearing parts inside redaction markers", App("f$rsafe", SBool, text), x.Pos())
	}
	if ex.Props == nil || ex.Props["C06"] {
		ex.oblige(fr, st, ex.obName(fr, "redactable", x)+".wf", "redactable", []string{"C06"}, "text converted to a redactable string is a well-formed redactable fragment", App("f$wfR", SBool, text), x.Pos())
	}
}
