package main

// Replay template for the special-case printer (C03): a multi-cause error (no single cause, so
// "leaf" for the caller) with a sentinel among its branches and an unsafe own text.

import "strings"

func specialReplay(w *World, o *Obligation, q *Query, _ map[string]string) (string, string) {
	// frame obligations have their own replay vehicle (race detector / purity)
	if strings.Contains(o.Name, "#frame.") || strings.Contains(o.Name, "#sframe.") {
		return "", ""
	}
	if !strings.HasPrefix(o.Name, "errutil.specialCaseFormat#") && !strings.Contains(o.Name, "formatRecursive#specialcase") {
		return "", ""
	}
	src := `package errors_test

import (
	"context"
	goerrors "errors"
	"fmt"
	"strings"
	"testing"

	"github.com/cockroachdb/redact"
)

// Replay of obligation ` + o.Name + `
func TestVerifReplay(t *testing.T) {
	// unsafe text (a format argument not wrapped in Safe) in a two-%w error whose branch is a sentinel
	// and the same under a single %w (a wrapper, not a leaf)
	for _, e := range []error{
		fmt.Errorf("tokUNSAFE%s %w %w", "x", context.Canceled, goerrors.New("other")),
		fmt.Errorf("tokUNSAFE%s: %w", "x", context.Canceled),
		fmt.Errorf("tokUNSAFE%s: %w", "x", fmt.Errorf("mid: %w", context.DeadlineExceeded)),
	} {
		for _, verb := range []string{"%v", "%+v"} {
			out := string(redact.Sprintf(verb, e).Redact())
			t.Logf("redacted rendering: %q", out)
			if strings.Contains(out, "tokUNSAFE") {
				t.Fatalf("REPLAY-CONFIRMED: unsafe text survives Redact(): %q", out)
			}
		}
	}
}
`
	return ".", src
}

func init() {
	registerReplayFirst(`specialCaseFormat#safe\.|formatRecursive#specialcase`, specialReplay)
}
