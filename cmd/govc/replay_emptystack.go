package main

// Replay template for the printed-stack obligations (C11 / C15): a stack without frames must look
// the same before and after a network hop (no one-line source, no reportable stack trace).

import "strings"

func emptyStackReplay(w *World, o *Obligation, q *Query, _ map[string]string) (string, string) {
	if !strings.HasPrefix(o.Name, "withstack.getOneLineSourceFromPrintedStack#post.") && !strings.HasPrefix(o.Name, "withstack.parsePrintedStack#post.") {
		return "", ""
	}
	src := `package withstack_test

import (
	"context"
	goerrors "errors"
	"testing"

	"github.com/cockroachdb/errors/errbase"
	"github.com/cockroachdb/errors/withstack"
)

// Replay of obligation ` + o.Name + `
func TestVerifReplay(t *testing.T) {
	// a depth beyond the real call stack records a stack without frames
	e := withstack.WithStackDepth(goerrors.New("boom"), 1000)
	f1, l1, fn1, ok1 := withstack.GetOneLineSource(e)
	r1 := withstack.GetReportableStackTrace(e)
	d := errbase.DecodeError(context.Background(), errbase.EncodeError(context.Background(), e))
	f2, l2, fn2, ok2 := withstack.GetOneLineSource(d)
	r2 := withstack.GetReportableStackTrace(d)
	if ok1 != ok2 || f1 != f2 || l1 != l2 || fn1 != fn2 || (r1 == nil) != (r2 == nil) {
		t.Fatalf("REPLAY-CONFIRMED: WithStackDepth(err, 1000): one-line source before the hop (%q,%d,%q,%v), after the hop (%q,%d,%q,%v); reportable stack trace before: %v, after: %+v", f1, l1, fn1, ok1, f2, l2, fn2, ok2, r1, r2)
	}
}
`
	return "withstack", src
}

func init() {
	registerReplayFirst(`getOneLineSourceFromPrintedStack#post\.|parsePrintedStack#post\.`, emptyStackReplay)
}
