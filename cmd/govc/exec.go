package main

// Symbolic execution of go/ssa functions, path by path, producing obligations.

import (
	"os"
	"fmt"
	"go/constant"
	"go/token"
	"go/types"
	"sort"
	"strings"

	"golang.org/x/tools/go/ssa"
)

// ---------------- values ----------------

type Step struct {
	IsSliceElem bool // element of a slice value stored at the parent location
	IsIndex     bool
	Field       int
	St          *types.Struct
	Index       *T
	Elem        types.Type // type of the selected component
}

// Loc is a symbolic pointer.
type Loc struct {
	Cell    int // >0 local cell
	Global  *ssa.Global
	Ref     *T         // heap root
	Snap    *T         // read-only snapshot root (element of a slice value)
	Pointee types.Type // type of the root object
	Path    []Step
}

type FnVal struct {
	Fn       *ssa.Function
	Bindings []Val
}

type Val struct {
	T     *T
	Ptr   *Loc
	Tuple []Val
	Fn    *FnVal
	// slice view over a local cell holding an array
	Back     int
	BackLen  *T
	BackOff  *T
	BackElem types.Type
	// where this (slice) value was loaded from: element stores update the stored slice value
	Origin *Loc
}

func (v Val) IsZero() bool {
	return v.T == nil && v.Ptr == nil && v.Tuple == nil && v.Fn == nil && v.Back == 0
}

// ---------------- state ----------------

type State struct {
	regs     map[ssa.Value]Val
	cells    map[int]*T
	cellType map[int]types.Type
	mat      map[int]*T // materialized cells -> heap ref
	heap     map[string]*T
	globals  map[*ssa.Global]*T
	pc       []*T
	fresh    []*T
	ghost    map[string]SV
	notes    []string
	trace    []string // branch decisions for reporting
	steps    int
	brIdx    []int                   // positions in pc of branch decisions (droppable assumptions)
	loopMode map[*ssa.BasicBlock]int // isolated loops: how this path treats the loop at that header
}

const (
	loopBodyOnly = 1
	loopExitOnly = 2
)

// dropBranchConds removes the assumptions that stem from branch decisions (weakening only).
func (s *State) dropBranchConds() {
	drop := map[int]bool{}
	for _, i := range s.brIdx {
		drop[i] = true
	}
	var npc []*T
	for i, t := range s.pc {
		if !drop[i] {
			npc = append(npc, t)
		}
	}
	s.pc = npc
	s.brIdx = nil
}

func NewState() *State {
	return &State{regs: map[ssa.Value]Val{}, cells: map[int]*T{}, cellType: map[int]types.Type{}, mat: map[int]*T{},
		heap: map[string]*T{}, globals: map[*ssa.Global]*T{}, ghost: map[string]SV{}}
}

func (s *State) Clone() *State {
	n := &State{regs: make(map[ssa.Value]Val, len(s.regs)+8), cells: make(map[int]*T, len(s.cells)), cellType: s.cellType,
		mat: make(map[int]*T, len(s.mat)), heap: make(map[string]*T, len(s.heap)), globals: make(map[*ssa.Global]*T, len(s.globals)),
		ghost: make(map[string]SV, len(s.ghost)), steps: s.steps}
	for k, v := range s.regs {
		n.regs[k] = v
	}
	for k, v := range s.cells {
		n.cells[k] = v
	}
	for k, v := range s.mat {
		n.mat[k] = v
	}
	for k, v := range s.heap {
		n.heap[k] = v
	}
	for k, v := range s.globals {
		n.globals[k] = v
	}
	for k, v := range s.ghost {
		n.ghost[k] = v
	}
	n.pc = append([]*T(nil), s.pc...)
	n.brIdx = append([]int(nil), s.brIdx...)
	if s.loopMode != nil {
		n.loopMode = make(map[*ssa.BasicBlock]int, len(s.loopMode))
		for k, v := range s.loopMode {
			n.loopMode[k] = v
		}
	}
	n.fresh = append([]*T(nil), s.fresh...)
	n.notes = append([]string(nil), s.notes...)
	n.trace = append([]string(nil), s.trace...)
	return n
}

func (s *State) Assume(t *T) {
	if t == nil || t.IsTrue() {
		return
	}
	s.pc = append(s.pc, t)
}

// ---------------- obligations ----------------

type Query struct {
	PC     []*T
	Goal   *T
	Heap   map[string]*T
	Trace  []string
	Pos    string
	Fn     *ssa.Function // top-level function (for replay)
	Reveal map[string]bool
	Props  map[string]bool // property scope of the run that produced the query
	// results
	Status string // unsat sat unknown timeout error trivial
	Solver string
	Ms     int64
	Output string
	SMT    string
	LiteSMT string
}

type Obligation struct {
	Name       string
	Func       string
	Kind       string
	Props      []string
	Text       string
	Queries    []*Query
	Status     string // discharged failed undecided
	Pos        string
	Assumed    bool // assumption-only (not checked)
	ExpectFail bool // vacuity canary: must be sat
	Pair       bool // canary pair (before / after): vacuous iff after is refuted and before is not
}

type unsupported struct{ msg string }

func unsupp(format string, a ...interface{}) {
	panic(unsupported{fmt.Sprintf(format, a...)})
}

// Ex is the executor for one top-level function / lemma.
type Ex struct {
	W            *World
	Obls         map[string]*Obligation
	OblOrder     []string
	nfresh       int
	ncell        int
	Paths        int
	MaxPaths     int
	MaxInline    int
	Notes        map[string]bool          // assumptions used (unmodelled externs, trusted contracts)
	Props        map[string]bool          // properties whose clauses are to be checked (nil = all)
	Safety       bool                     // generate no-panic obligations
	Vacuity      bool                     // generate vacuity canaries
	returns int
	Lite    bool // BuildSMT: path facts and theory facts only (no axioms / unfoldings): a cheap first attempt
	FrameChk     bool                     // generate store/frame obligations (C18)
	isoDone      map[*ssa.BasicBlock]bool // isolated loops whose body has been verified
	OnlyKinds    map[string]bool          // when set: only obligations of these kinds are generated, the others assumed
	scopedPre    bool                     // the call precondition being generated comes from a clause scoped to a property
	LevelChk     bool                     // ghost frame level tracking (C16)
	Top          *Frame
	covers       int
	pendingFacts []*T
	Partial      []string // paths abandoned because they left the supported subset
}

type loopInfo struct {
	Header *ssa.BasicBlock
	Ord    int
	Blocks map[*ssa.BasicBlock]bool
	Spec   *LoopSpec
	// invariants supplied by an enclosing (inlining) frame's contract, evaluated in that frame
	Up      *LoopSpec
	UpFrame *Frame
}

type Frame struct {
	Fn        *ssa.Function
	Ctr       *Contract
	Parent    *Frame
	Args      []Val
	Bindings  []Val
	Entry     *State
	OnReturn  func(st *State, results []Val)
	Top       bool
	Loops     map[*ssa.BasicBlock]*loopInfo
	Name      string
	Depth     int
	Lvl       *T // ghost frame level (C16)
	counters  map[string]int
	instrOrd  map[ssa.Instruction]int
	MayPanic  *T // condition under which this (top) function is allowed to panic
	LemmaVars map[string]SV
	CurLoop   *loopInfo
}

func NewEx(w *World) *Ex {
	return &Ex{W: w, Obls: map[string]*Obligation{}, MaxPaths: 4000, MaxInline: 6, Notes: map[string]bool{}, Safety: true}
}

func (ex *Ex) freshName(base string) string {
	ex.nfresh++
	return fmt.Sprintf("%s!%d", base, ex.nfresh)
}

func (ex *Ex) FreshVar(base string, s *Sort) *T { return Var(ex.freshName(base), s) }

func (ex *Ex) note(s string) { ex.Notes[s] = true }

func (ex *Ex) pos(p token.Pos) string {
	if !p.IsValid() {
		return ""
	}
	ps := ex.W.Fset.Position(p)
	return fmt.Sprintf("%s:%d", strings.TrimPrefix(ps.Filename, ex.W.RepoDir+"/"), ps.Line)
}

// oblige records goal under the current path condition.
func (ex *Ex) oblige(fr *Frame, st *State, name, kind string, props []string, text string, goal *T, pos token.Pos) {
	if ex.OnlyKinds != nil && !ex.OnlyKinds[kind] && !(kind == "callpre" && ex.scopedPre && ex.OnlyKinds["scopedpre"]) {
		// obligations of other kinds are discharged by the checks of their own properties
		st.Assume(goal)
		return
	}
	o := ex.Obls[name]
	if o == nil {
		o = &Obligation{Name: name, Func: ex.Top.Name, Kind: kind, Props: props, Text: text, Pos: ex.pos(pos)}
		ex.Obls[name] = o
		ex.OblOrder = append(ex.OblOrder, name)
	}
	q := &Query{PC: append([]*T(nil), st.pc...), Goal: goal, Heap: copyHeap(st.heap), Trace: append([]string(nil), st.trace...), Pos: ex.pos(pos), Fn: ex.Top.Fn, Reveal: ex.revealSet(), Props: ex.Props}
	if goal.IsTrue() {
		q.Status = "trivial"
	}
	o.Queries = append(o.Queries, q)
	st.Assume(goal)
}

func (ex *Ex) revealSet() map[string]bool {
	m := map[string]bool{}
	if ex.Top != nil && ex.Top.Ctr != nil {
		for _, n := range ex.Top.Ctr.Reveal {
			m[n] = true
		}
		for _, n := range ex.Top.Ctr.Conceal {
			m["!"+n] = true
		}
		for _, n := range ex.Top.Ctr.GroundUnfold {
			m["~"+n] = true
		}
	}
	return m
}

func copyHeap(h map[string]*T) map[string]*T {
	n := make(map[string]*T, len(h))
	for k, v := range h {
		n[k] = v
	}
	return n
}

// obName builds "pkg.Func#kind.N" with per-frame static ordinals.
func (ex *Ex) obName(fr *Frame, kind string, ins ssa.Instruction) string {
	n := 0
	if ins != nil {
		n = fr.ordinalOf(kind, ins)
	}
	prefix := ex.Top.Name
	if fr != ex.Top {
		prefix += "#in." + fr.Name
	}
	if n > 0 {
		return fmt.Sprintf("%s#%s.%d", prefix, kind, n)
	}
	return fmt.Sprintf("%s#%s", prefix, kind)
}

// ordinalOf numbers instructions of a kind in source order within the function.
func (fr *Frame) ordinalOf(kind string, ins ssa.Instruction) int {
	key := kind
	if fr.instrOrd == nil {
		fr.instrOrd = map[ssa.Instruction]int{}
		fr.counters = map[string]int{}
	}
	if n, ok := fr.instrOrd[ins]; ok {
		return n
	}
	// number all instructions of the same "kind class" by position order
	type pi struct {
		ins ssa.Instruction
		pos token.Pos
		idx int
	}
	var all []pi
	idx := 0
	for _, b := range fr.Fn.Blocks {
		for _, i := range b.Instrs {
			idx++
			if instrKindClass(i) == instrKindClass(ins) {
				all = append(all, pi{i, i.Pos(), idx})
			}
		}
	}
	sort.SliceStable(all, func(a, b int) bool {
		if all[a].pos != all[b].pos && all[a].pos.IsValid() && all[b].pos.IsValid() {
			return all[a].pos < all[b].pos
		}
		return all[a].idx < all[b].idx
	})
	for k, p := range all {
		fr.instrOrd[p.ins] = k + 1
	}
	_ = key
	return fr.instrOrd[ins]
}

func instrKindClass(i ssa.Instruction) string {
	switch x := i.(type) {
	case *ssa.TypeAssert:
		return "typeassert"
	case *ssa.IndexAddr, *ssa.Index:
		return "index"
	case *ssa.Slice:
		return "slice"
	case *ssa.Panic:
		return "panic"
	case *ssa.Call:
		if x.Call.IsInvoke() {
			return "invoke"
		}
		if c := x.Call.StaticCallee(); c != nil && c.String() == "github.com/cockroachdb/redact.Safe" {
			return "safe"
		}
		return "call"
	case *ssa.Store:
		return "store"
	case *ssa.MapUpdate:
		return "mapupdate"
	case *ssa.FieldAddr, *ssa.Field:
		return "field"
	case *ssa.UnOp:
		return "unop"
	case *ssa.BinOp:
		return "binop"
	case *ssa.Lookup:
		return "lookup"
	}
	return fmt.Sprintf("%T", i)
}

// ---------------- loops ----------------

func computeLoops(fn *ssa.Function) map[*ssa.BasicBlock]*loopInfo {
	loops := map[*ssa.BasicBlock]*loopInfo{}
	for _, b := range fn.Blocks {
		for _, s := range b.Succs {
			if s.Dominates(b) {
				li := loops[s]
				if li == nil {
					li = &loopInfo{Header: s, Blocks: map[*ssa.BasicBlock]bool{s: true}}
					loops[s] = li
				}
				// natural loop of back edge b->s
				var stack []*ssa.BasicBlock
				if !li.Blocks[b] {
					li.Blocks[b] = true
					stack = append(stack, b)
				}
				for len(stack) > 0 {
					x := stack[len(stack)-1]
					stack = stack[:len(stack)-1]
					for _, p := range x.Preds {
						if !li.Blocks[p] {
							li.Blocks[p] = true
							stack = append(stack, p)
						}
					}
				}
			}
		}
	}
	var hs []*ssa.BasicBlock
	for h := range loops {
		hs = append(hs, h)
	}
	// order by source position of the loop statement where available, else block index
	sort.Slice(hs, func(i, j int) bool { return loopPos(hs[i]) < loopPos(hs[j]) })
	for i, h := range hs {
		loops[h].Ord = i + 1
	}
	return loops
}

func loopPos(h *ssa.BasicBlock) int {
	// ssa creates the blocks of a loop statement when it visits the statement, so the
	// smallest block index among {header, its body/done successors} follows source order.
	m := h.Index
	for _, s := range h.Succs {
		if s.Index < m {
			m = s.Index
		}
	}
	return m
}

// ---------------- running a function ----------------

func (ex *Ex) newFrame(fn *ssa.Function, parent *Frame) *Frame {
	fr := &Frame{Fn: fn, Ctr: ex.W.Contracts[fn], Parent: parent, Loops: computeLoops(fn)}
	fr.Name = ex.W.funcName(fn)
	if parent != nil {
		fr.Depth = parent.Depth + 1
	}
	if fr.Ctr != nil {
		for _, li := range fr.Loops {
			li.Spec = fr.Ctr.Loops[li.Ord]
		}
	}
	for a := parent; a != nil; a = a.Parent {
		if a.Ctr == nil || a.Ctr.InlineLoops == nil {
			continue
		}
		if m := a.Ctr.InlineLoops[fn.Name()]; m != nil {
			for _, li := range fr.Loops {
				if li.Up == nil && m[li.Ord] != nil {
					li.Up = m[li.Ord]
					li.UpFrame = a
				}
			}
		}
	}
	return fr
}

func (w *World) funcName(fn *ssa.Function) string {
	s := fn.String()
	s = strings.ReplaceAll(s, w.ModPath+"/", "")
	s = strings.ReplaceAll(s, w.ModPath+".", "errors.")
	s = strings.ReplaceAll(s, "github.com/", "")
	return s
}

// paramVal creates the symbolic value of a parameter.
func (ex *Ex) symbolic(name string, t types.Type) Val {
	return Val{T: Var(name, ex.W.SortOf(t))}
}

func (ex *Ex) execBlock(fr *Frame, st *State, b, prev *ssa.BasicBlock) {
	if prev != nil && st.loopMode != nil {
		if mode, ok := st.loopMode[prev]; ok {
			if li := fr.Loops[prev]; li != nil && li.Header == prev {
				inBody := li.Blocks[b] && b != prev
				if mode == loopExitOnly && inBody {
					return // the body of an isolated loop is verified once, separately
				}
				if mode == loopBodyOnly && !li.Blocks[b] {
					return // the exit continuation is explored by the arriving paths themselves
				}
			}
		}
	}
	if li := fr.Loops[b]; li != nil && prev != nil {
		if li.Blocks[prev] {
			ex.loopBackEdge(fr, st, li, b, prev)
			return
		}
		ex.loopEntry(fr, st, li, b, prev)
		return
	}
	// phis
	if prev != nil {
		ex.assignPhis(fr, st, b, prev)
	}
	ex.execFrom(fr, st, b, firstNonPhi(b))
}

func firstNonPhi(b *ssa.BasicBlock) int {
	for i, ins := range b.Instrs {
		if _, ok := ins.(*ssa.Phi); !ok {
			return i
		}
	}
	return len(b.Instrs)
}

func (ex *Ex) assignPhis(fr *Frame, st *State, b, prev *ssa.BasicBlock) {
	idx := -1
	for i, p := range b.Preds {
		if p == prev {
			idx = i
		}
	}
	var vals []Val
	var phis []*ssa.Phi
	for _, ins := range b.Instrs {
		phi, ok := ins.(*ssa.Phi)
		if !ok {
			break
		}
		phis = append(phis, phi)
		vals = append(vals, ex.val(fr, st, phi.Edges[idx]))
	}
	for i, phi := range phis {
		st.regs[phi] = vals[i]
	}
}

// innermostLoop: the smallest loop whose body contains b (nil outside loops).
func (fr *Frame) innermostLoop(b *ssa.BasicBlock) *loopInfo {
	var best *loopInfo
	for _, li := range fr.Loops {
		if li.Blocks[b] && (best == nil || len(li.Blocks) < len(best.Blocks)) {
			best = li
		}
	}
	return best
}

func (ex *Ex) execFrom(fr *Frame, st *State, b *ssa.BasicBlock, i int) {
	fr.CurLoop = fr.innermostLoop(b)
	for ; i < len(b.Instrs); i++ {
		st.steps++
		if st.steps > 20000 {
			unsupp("path too long in %s", fr.Name)
		}
		ins := b.Instrs[i]
		switch x := ins.(type) {
		case *ssa.If:
			c := ex.termOf(fr, st, ex.val(fr, st, x.Cond), types.Typ[types.Bool])
			if c.IsTrue() {
				ex.execBlock(fr, st, b.Succs[0], b)
				return
			}
			if c.IsFalse() {
				ex.execBlock(fr, st, b.Succs[1], b)
				return
			}
			ex.Paths++
			if ex.Paths > ex.MaxPaths {
				unsupp("path cap %d exceeded in %s", ex.MaxPaths, ex.Top.Name)
			}
			st2 := st.Clone()
			st.brIdx = append(st.brIdx, len(st.pc))
			st2.brIdx = append(st2.brIdx, len(st2.pc))
			st.Assume(c)
			st.trace = append(st.trace, fmt.Sprintf("%s:T", ex.pos(x.Cond.Pos())))
			st2.Assume(Not(c))
			st2.trace = append(st2.trace, fmt.Sprintf("%s:F", ex.pos(x.Cond.Pos())))
			ex.guardedBranch(fr, st, b.Succs[0], b)
			ex.guardedBranch(fr, st2, b.Succs[1], b)
			return
		case *ssa.Jump:
			ex.execBlock(fr, st, b.Succs[0], b)
			return
		case *ssa.Return:
			var rs []Val
			for _, r := range x.Results {
				rs = append(rs, ex.val(fr, st, r))
			}
			fr.OnReturn(st, rs)
			return
		case *ssa.Panic:
			ex.doPanic(fr, st, x)
			return
		case *ssa.Call:
			// calls may fork; continue in continuation
			ex.doCall(fr, st, x, &x.Call, x, func(st2 *State, res Val) {
				if !res.IsZero() {
					st2.regs[x] = res
				}
				ex.execFrom(fr, st2, b, i+1)
			})
			return
		case *ssa.Defer, *ssa.RunDefers, *ssa.Go, *ssa.Select, *ssa.Send:
			unsupp("instruction %T in %s", ins, fr.Name)
		default:
			ex.step(fr, st, ins)
		}
	}
}

// guardedBranch explores one branch; a construct outside the subset ends only that path.
func (ex *Ex) guardedBranch(fr *Frame, st *State, b, prev *ssa.BasicBlock) {
	defer func() {
		if r := recover(); r != nil {
			if u, ok := r.(unsupported); ok {
				ex.Partial = append(ex.Partial, u.msg)
				return
			}
			panic(r)
		}
	}()
	ex.execBlock(fr, st, b, prev)
}

func (ex *Ex) doPanic(fr *Frame, st *State, x *ssa.Panic) {
	if !ex.Safety {
		return
	}
	goal := tFalse
	if ex.Top.MayPanic != nil {
		goal = ex.Top.MayPanic
	}
	ex.oblige(fr, st, ex.obName(fr, "panic", x), "panic", ex.safetyProps(fr), "explicit panic must be unreachable (or covered by maypanic)", goal, x.Pos())
}

func (ex *Ex) safetyProps(fr *Frame) []string {
	if ex.Top.Ctr != nil {
		return ex.Top.Ctr.Props
	}
	return nil
}

// panicCheck emits a no-panic obligation for ins with the given safe-condition.
func (ex *Ex) panicCheck(fr *Frame, st *State, kind string, ins ssa.Instruction, text string, safe *T) {
	if !ex.Safety {
		st.Assume(safe)
		return
	}
	goal := safe
	if ex.Top.MayPanic != nil {
		goal = Or(safe, ex.Top.MayPanic)
	}
	ex.oblige(fr, st, ex.obName(fr, kind, ins), kind, ex.safetyProps(fr), text, goal, ins.Pos())
}

// ---------------- instruction semantics ----------------

func (ex *Ex) step(fr *Frame, st *State, ins ssa.Instruction) {
	w := ex.W
	switch x := ins.(type) {
	case *ssa.DebugRef:
		return
	case *ssa.Alloc:
		ex.ncell++
		id := ex.ncell
		elem := x.Type().(*types.Pointer).Elem()
		st.cells[id] = w.Zero(elem)
		if st.cellType == nil {
			st.cellType = map[int]types.Type{}
		}
		st.cellType = copyCellTypes(st.cellType)
		st.cellType[id] = elem
		st.regs[x] = Val{Ptr: &Loc{Cell: id, Pointee: elem}}
	case *ssa.Store:
		addr := ex.val(fr, st, x.Addr)
		v := ex.val(fr, st, x.Val)
		ex.storeTo(fr, st, addr, v, x.Val.Type(), x)
	case *ssa.UnOp:
		st.regs[x] = ex.unop(fr, st, x)
	case *ssa.BinOp:
		st.regs[x] = ex.binop(fr, st, x)
	case *ssa.FieldAddr:
		base := ex.val(fr, st, x.X)
		pt := x.X.Type().Underlying().(*types.Pointer).Elem()
		stt := pt.Underlying().(*types.Struct)
		loc := ex.asLoc(fr, st, base, pt, x)
		nl := *loc
		nl.Path = append(append([]Step(nil), loc.Path...), Step{Field: x.Field, St: stt, Elem: stt.Field(x.Field).Type()})
		st.regs[x] = Val{Ptr: &nl}
	case *ssa.Field:
		sv := ex.termOf(fr, st, ex.val(fr, st, x.X), x.X.Type())
		stt := x.X.Type().Underlying().(*types.Struct)
		st.regs[x] = Val{T: w.StructGet(sv, stt, x.Field)}
	case *ssa.IndexAddr:
		ex.indexAddr(fr, st, x)
	case *ssa.Index:
		ex.index(fr, st, x)
	case *ssa.Slice:
		ex.slice(fr, st, x)
	case *ssa.Lookup:
		ex.lookup(fr, st, x)
	case *ssa.MapUpdate:
		ex.mapUpdate(fr, st, x)
	case *ssa.MakeMap:
		r := ex.FreshVar("map", SRef)
		st.Assume(Not(Eq(r, NilRef)))
		ex.assumeFresh(st, r)
		mt := x.Type().Underlying().(*types.Map)
		ks, vs := w.SortOf(mt.Key()), w.SortOf(mt.Elem())
		ms := w.mapValSort(ks, vs)
		hk := mapHeapKey(ks, vs)
		h := ex.heapGet(st, hk, ArraySort(SRef, ms))
		empty := App("mk$"+ms.Name, ms, App("constfalse$"+ks.Mangle(), ArraySort(ks, SBool)), ex.FreshVar("mapinit", ArraySort(ks, vs)))
		st.heap[hk] = Store(h, r, empty)
		st.regs[x] = Val{T: r}
	case *ssa.MakeSlice:
		ex.ncell++
		id := ex.ncell
		et := x.Type().Underlying().(*types.Slice).Elem()
		es := w.SortOf(et)
		st.cells[id] = App("as-const$"+es.Mangle(), ArraySort(SInt, es), w.Zero(et))
		st.cellType = copyCellTypes(st.cellType)
		st.cellType[id] = types.NewArray(et, 0)
		ln := ex.termOf(fr, st, ex.val(fr, st, x.Len), types.Typ[types.Int])
		ex.panicCheck(fr, st, "makeslice", x, "make: len out of range", Ge(ln, IntLit(0)))
		st.regs[x] = Val{Back: id, BackLen: ln, BackOff: IntLit(0), BackElem: et}
	case *ssa.MakeInterface:
		v := ex.val(fr, st, x.X)
		st.regs[x] = Val{T: ex.makeIface(fr, st, v, x.X.Type())}
	case *ssa.MakeClosure:
		var bs []Val
		for _, b := range x.Bindings {
			bs = append(bs, ex.val(fr, st, b))
		}
		st.regs[x] = Val{Fn: &FnVal{Fn: x.Fn.(*ssa.Function), Bindings: bs}}
	case *ssa.ChangeInterface:
		st.regs[x] = ex.val(fr, st, x.X)
	case *ssa.ChangeType:
		st.regs[x] = ex.val(fr, st, x.X)
		ex.redactableConversionSink(fr, st, x)
	case *ssa.Convert:
		st.regs[x] = ex.convert(fr, st, x)
	case *ssa.TypeAssert:
		ex.typeAssert(fr, st, x)
	case *ssa.Extract:
		tv := ex.val(fr, st, x.Tuple)
		if tv.Tuple == nil {
			unsupp("extract from non-tuple in %s", fr.Name)
		}
		st.regs[x] = tv.Tuple[x.Index]
	case *ssa.Phi:
		// handled on block entry
	case *ssa.Range:
		ex.rangeInit(fr, st, x)
	case *ssa.Next:
		ex.rangeNext(fr, st, x)
	case *ssa.SliceToArrayPointer, *ssa.MultiConvert:
		unsupp("instruction %T in %s", ins, fr.Name)
	default:
		unsupp("instruction %T in %s", ins, fr.Name)
	}
}

func copyCellTypes(m map[int]types.Type) map[int]types.Type {
	n := make(map[int]types.Type, len(m)+1)
	for k, v := range m {
		n[k] = v
	}
	return n
}

func mapHeapKey(k, v *Sort) string { return "M$" + k.Mangle() + "$" + v.Mangle() }

func (ex *Ex) heapGet(st *State, key string, s *Sort) *T {
	if h, ok := st.heap[key]; ok {
		return h
	}
	h := Var(key, s)
	st.heap[key] = h
	ex.W.heapSorts[key] = s
	return h
}

func (ex *Ex) assumeFresh(st *State, r *T) {
	for _, f := range st.fresh {
		st.Assume(Not(Eq(r, f)))
	}
	st.Assume(Not(App("alloc0", SBool, r)))
	// a freshly allocated object is distinct from every reference the function already holds:
	// reference-valued registers and the elements of local arrays of references (loop-carried
	// slices filled in earlier iterations)
	seen := map[string]bool{r.String(): true}
	for _, v := range st.regs {
		if v.T != nil && v.T.S.Eq(SRef) && v.T.Kind != kApp {
			k := v.T.String()
			if !seen[k] {
				seen[k] = true
				st.Assume(Not(Eq(r, v.T)))
			}
		}
	}
	for id, c := range st.cells {
		if id <= 0 || c == nil {
			continue
		}
		if c.S.Name == "Array" && c.S.Args[0].Eq(SInt) && c.S.Args[1].Eq(SRef) {
			k := c.String()
			if !seen[k] {
				seen[k] = true
				j := Var("j!f", SInt)
				st.Assume(Forall([]*T{j}, Not(Eq(Select(c, j), r))))
			}
		}
	}
	st.fresh = append(st.fresh, r)
}

// val evaluates an SSA value in the state.
func (ex *Ex) val(fr *Frame, st *State, v ssa.Value) Val {
	switch x := v.(type) {
	case *ssa.Const:
		return Val{T: ex.constTerm(x)}
	case *ssa.Global:
		return Val{Ptr: &Loc{Global: x, Pointee: x.Type().(*types.Pointer).Elem()}}
	case *ssa.Function:
		return Val{Fn: &FnVal{Fn: x}}
	case *ssa.FreeVar:
		for i, fv := range fr.Fn.FreeVars {
			if fv == x {
				if i < len(fr.Bindings) {
					return fr.Bindings[i]
				}
			}
		}
		unsupp("unbound free variable %s in %s", x.Name(), fr.Name)
	case *ssa.Builtin:
		unsupp("builtin %s as value", x.Name())
	}
	if r, ok := st.regs[v]; ok {
		return r
	}
	// lazily evaluate pure instructions (used by invariants that mention loop-carried expressions)
	if ins, ok := v.(ssa.Instruction); ok {
		switch ins.(type) {
		case *ssa.BinOp, *ssa.UnOp, *ssa.Extract, *ssa.Field, *ssa.FieldAddr, *ssa.ChangeInterface, *ssa.ChangeType, *ssa.Convert, *ssa.MakeInterface:
			ex.step(fr, st, ins)
			if r, ok := st.regs[v]; ok {
				return r
			}
		}
	}
	unsupp("value %s (%T) not available in %s", v.Name(), v, fr.Name)
	return Val{}
}

func (ex *Ex) constTerm(c *ssa.Const) *T {
	w := ex.W
	t := c.Type()
	if c.Value == nil {
		return w.Zero(t)
	}
	switch c.Value.Kind() {
	case constant.Bool:
		return BoolLit(constant.BoolVal(c.Value))
	case constant.String:
		return StrLit(constant.StringVal(c.Value))
	case constant.Int:
		if n, ok := constant.Int64Val(c.Value); ok {
			return IntLit(n)
		}
		return &T{Op: c.Value.ExactString(), S: SInt, Kind: kInt}
	}
	return App("const$"+mangle(c.Value.ExactString()), w.SortOf(t))
}

// termOf forces a Val into an SMT term of the sort of Go type t.
func (ex *Ex) termOf(fr *Frame, st *State, v Val, t types.Type) *T {
	w := ex.W
	switch {
	case v.T != nil:
		return v.T
	case v.Origin != nil && v.Back == 0 && v.Ptr == nil && v.Fn == nil && v.Tuple == nil:
		return ex.loadFrom0(fr, st, Val{Ptr: v.Origin}, v.Origin.Pointee, nil).T
	case v.Back != 0:
		arr := st.cells[v.Back]
		es := w.SortOf(v.BackElem)
		if v.BackOff != nil && !(v.BackOff.Kind == kInt && v.BackOff.Op == "0") {
			// shifted view
			sh := ex.FreshVar("view", ArraySort(SInt, es))
			j := Var("j!v", SInt)
			st.Assume(Forall([]*T{j}, Eq(Select(sh, j), Select(arr, Add(j, v.BackOff)))))
			arr = sh
		}
		return w.MkSlice(es, arr, v.BackLen, tFalse)
	case v.Ptr != nil:
		return ex.ptrTerm(fr, st, v.Ptr)
	case v.Fn != nil:
		if len(v.Fn.Bindings) == 0 {
			return App("fn$"+mangle(w.funcName(v.Fn.Fn)), SFn)
		}
		cv := ex.FreshVar("closure", SFn)
		st.Assume(Not(Eq(cv, App("nil$Fn", SFn))))
		return cv
	case v.Tuple != nil:
		unsupp("tuple used as term")
	}
	if t != nil {
		return w.Zero(t)
	}
	unsupp("empty value")
	return nil
}

// ptrTerm converts a symbolic pointer into a Ref term, materializing local objects.
func (ex *Ex) ptrTerm(fr *Frame, st *State, l *Loc) *T {
	if l.Ref != nil && len(l.Path) == 0 {
		return l.Ref
	}
	if l.Cell != 0 && len(l.Path) == 0 {
		return ex.materialize(fr, st, l.Cell)
	}
	if l.Global != nil && len(l.Path) == 0 {
		return App("addr$"+mangle(l.Global.String()), SRef)
	}
	// the address of a field of external struct type (bytes.Buffer, strings.Builder, ...) inside a
	// heap object: an opaque reference determined by the object and the field. Module code never
	// dereferences such pointers itself (the types are only used through their methods, which
	// are modelled on the location directly); whatever an external callee does through it is
	// not tracked (T7).
	if l.Ref == nil && l.Cell != 0 && len(l.Path) == 1 && !l.Path[0].IsIndex && !l.Path[0].IsSliceElem {
		// field of a local struct: the local escapes to the heap first
		if stt, ok := l.Pointee.Underlying().(*types.Struct); ok && l.Path[0].Field < stt.NumFields() {
			if n, ok := types.Unalias(stt.Field(l.Path[0].Field).Type()).(*types.Named); ok && n.Obj().Pkg() != nil && !ex.W.InModule(n.Obj().Pkg()) {
				r := ex.materialize(fr, st, l.Cell)
				nl := *l
				nl.Cell = 0
				nl.Ref = r
				return ex.ptrTerm(fr, st, &nl)
			}
		}
	}
	if l.Ref != nil && len(l.Path) == 1 && !l.Path[0].IsIndex && !l.Path[0].IsSliceElem {
		if stt, ok := l.Pointee.Underlying().(*types.Struct); ok && l.Path[0].Field < stt.NumFields() {
			ft := stt.Field(l.Path[0].Field).Type()
			if n, ok := types.Unalias(ft).(*types.Named); ok && n.Obj().Pkg() != nil && !ex.W.InModule(n.Obj().Pkg()) {
				if _, isStruct := n.Underlying().(*types.Struct); isStruct {
					ex.note("interior pointer to a field of external struct type " + n.String() + " handed out as an opaque reference (T7)")
					r := App("fieldref$"+mangle(ex.W.fieldHeapKey(l.Pointee, stt, l.Path[0].Field)), SRef, l.Ref)
					st.Assume(Not(Eq(r, NilRef)))
					return r
				}
			}
		}
	}
	// interior pointers are not modelled as first-class refs
	unsupp("interior pointer escapes in %s", fr.Name)
	return nil
}

func (ex *Ex) materialize(fr *Frame, st *State, cell int) *T {
	if r, ok := st.mat[cell]; ok {
		return r
	}
	w := ex.W
	t := st.cellType[cell]
	r := ex.FreshVar("new", SRef)
	st.Assume(Not(Eq(r, NilRef)))
	ex.assumeFresh(st, r)
	val := st.cells[cell]
	if stt, ok := t.Underlying().(*types.Struct); ok {
		for i := 0; i < stt.NumFields(); i++ {
			key := w.fieldHeapKey(t, stt, i)
			h := ex.heapGet(st, key, ArraySort(SRef, w.SortOf(stt.Field(i).Type())))
			st.heap[key] = Store(h, r, w.StructGet(val, stt, i))
		}
		// type invariant of a freshly built object is asserted when it escapes
		ex.assertTypeInv(fr, st, t, r)
	} else {
		key := "P$" + w.SortOf(t).Mangle()
		h := ex.heapGet(st, key, ArraySort(SRef, w.SortOf(t)))
		st.heap[key] = Store(h, r, val)
	}
	st.mat[cell] = r
	return r
}

func (w *World) fieldHeapKey(t types.Type, stt *types.Struct, i int) string {
	t = deepUnalias(t)
	return "H$" + mangle(w.shortType(t)) + "$" + stt.Field(i).Name()
}

// asLoc turns a pointer Val into a Loc whose root object has type pt.
func (ex *Ex) asLoc(fr *Frame, st *State, v Val, pt types.Type, ins ssa.Instruction) *Loc {
	if v.Ptr != nil {
		l := v.Ptr
		if l.Cell != 0 {
			if r, ok := st.mat[l.Cell]; ok {
				return &Loc{Ref: r, Pointee: l.Pointee, Path: l.Path}
			}
		}
		return l
	}
	if v.T != nil {
		if ins != nil {
			ex.panicCheck(fr, st, "nil", ins, "nil pointer dereference", Not(Eq(v.T, NilRef)))
		}
		return &Loc{Ref: v.T, Pointee: pt}
	}
	unsupp("bad pointer value in %s", fr.Name)
	return nil
}

// navigate reads the component at path inside value v of type t.
func (ex *Ex) navGet(v *T, path []Step) *T {
	w := ex.W
	for _, s := range path {
		if s.IsSliceElem {
			v = Select(w.SliceArr(v, w.SortOf(s.Elem)), s.Index)
		} else if s.IsIndex {
			v = Select(v, s.Index)
		} else {
			v = w.StructGet(v, s.St, s.Field)
		}
	}
	return v
}

func (ex *Ex) navSet(v *T, path []Step, nv *T) *T {
	w := ex.W
	if len(path) == 0 {
		return nv
	}
	s := path[0]
	if s.IsSliceElem {
		es := w.SortOf(s.Elem)
		arr := w.SliceArr(v, es)
		inner := ex.navSet(Select(arr, s.Index), path[1:], nv)
		return w.MkSlice(es, Store(arr, s.Index, inner), w.SliceLen(v), w.SliceIsNil(v))
	}
	if s.IsIndex {
		inner := ex.navSet(Select(v, s.Index), path[1:], nv)
		return Store(v, s.Index, inner)
	}
	inner := ex.navSet(w.StructGet(v, s.St, s.Field), path[1:], nv)
	return w.StructSet(v, s.St, s.Field, inner)
}

// ifaceTypeFact: a non-nil value of static interface type I has I's methods (type soundness).
func (ex *Ex) ifaceTypeFact(v *T, t types.Type) *T {
	if v == nil || t == nil || !v.S.Eq(SIface) {
		return nil
	}
	it, ok := t.Underlying().(*types.Interface)
	if !ok || it.NumMethods() == 0 {
		return nil
	}
	return Implies(Not(IfaceIsNil(v)), ex.implementsTerm(Dyn(v), it))
}

func (ex *Ex) loadFrom(fr *Frame, st *State, addr Val, t types.Type, ins ssa.Instruction) Val {
	r := ex.loadFrom0(fr, st, addr, t, ins)
	if t != nil && isSliceT(t) && addr.Ptr != nil && addr.Ptr.Snap == nil && (addr.Ptr.Cell > 0 || addr.Ptr.Global != nil || (addr.Ptr.Ref != nil && len(addr.Ptr.Path) > 0)) {
		r.Origin = addr.Ptr
	}
	if r.T != nil && t != nil {
		if f := ex.ifaceTypeFact(r.T, t); f != nil {
			st.Assume(f)
		}
	}
	return r
}

func (ex *Ex) loadFrom0(fr *Frame, st *State, addr Val, t types.Type, ins ssa.Instruction) Val {
	w := ex.W
	l := ex.asLoc(fr, st, addr, t, ins)
	switch {
	case l.Snap != nil:
		return Val{T: ex.navGet(l.Snap, l.Path)}
	case l.Cell != 0:
		return Val{T: ex.navGet(st.cells[l.Cell], l.Path)}
	case l.Global != nil:
		return Val{T: ex.navGet(ex.globalGet(st, l.Global), l.Path)}
	case l.Ref != nil:
		if stt, ok := l.Pointee.Underlying().(*types.Struct); ok {
			if len(l.Path) == 0 {
				args := make([]*T, stt.NumFields())
				for i := range args {
					key := w.fieldHeapKey(l.Pointee, stt, i)
					args[i] = Select(ex.heapGet(st, key, ArraySort(SRef, w.SortOf(stt.Field(i).Type()))), l.Ref)
				}
				s := w.SortOf(l.Pointee)
				return Val{T: App("mk$"+s.Name, s, args...)}
			}
			f := l.Path[0]
			key := w.fieldHeapKey(l.Pointee, stt, f.Field)
			h := ex.heapGet(st, key, ArraySort(SRef, w.SortOf(stt.Field(f.Field).Type())))
			return Val{T: ex.navGet(Select(h, l.Ref), l.Path[1:])}
		}
		key := "P$" + w.SortOf(l.Pointee).Mangle()
		h := ex.heapGet(st, key, ArraySort(SRef, w.SortOf(l.Pointee)))
		return Val{T: ex.navGet(Select(h, l.Ref), l.Path)}
	}
	unsupp("load from unknown location")
	return Val{}
}

func (ex *Ex) globalGet(st *State, g *ssa.Global) *T {
	if v, ok := st.globals[g]; ok {
		return v
	}
	t := g.Type().(*types.Pointer).Elem()
	v := Var("G$"+mangle(ex.W.shortName(g)), ex.W.SortOf(t))
	st.globals[g] = v
	if g.Pkg != nil && !ex.W.InModule(g.Pkg.Pkg) && isIface(t) && t.String() == "error" {
		// T15: exported sentinel errors of dependencies are non-nil values of comparable types
		ex.note("T15: sentinel error " + g.String() + " is a non-nil value of a comparable type")
		st.Assume(And(Not(IfaceIsNil(v)), App("comparable", SBool, Dyn(v))))
	}
	return v
}

func (w *World) shortName(g *ssa.Global) string {
	s := g.String()
	s = strings.ReplaceAll(s, w.ModPath+"/", "")
	return s
}

func (ex *Ex) storeTo(fr *Frame, st *State, addr Val, v Val, vt types.Type, ins ssa.Instruction) {
	w := ex.W
	l := ex.asLoc(fr, st, addr, vt, ins)
	// function values / pointers-to-locals stored into cells: keep symbolic Val when the target is a whole local cell
	nv := ex.termOf(fr, st, v, vt)
	switch {
	case l.Snap != nil:
		unsupp("store through element pointer of a non-local slice in %s", fr.Name)
	case l.Cell != 0:
		if os.Getenv("GOVC_DBG") != "" && ex.FrameChk {
			fmt.Fprintf(os.Stderr, "DBG store cell=%d path=%v fn=%s\n", l.Cell, len(l.Path), fr.Name)
		}
		if ex.FrameChk {
			// an element write through a slice VALUE held in a local: the backing array is shared
			// with whoever produced the slice (the executor models slices as values), so ownership
			// is decided by the structural def-chain rule on the store's address
			for _, stp := range l.Path {
				if stp.IsSliceElem {
					if sti, ok := ins.(*ssa.Store); ok {
						if owned, why := ex.W.ownedRoot(sti.Addr, map[ssa.Value]bool{}, 0, false); !owned {
							ex.frameViolation(fr, st, ins, "element write through a slice that is not owned by this call: "+why)
						}
					}
					break
				}
			}
		}
		st.cells[l.Cell] = ex.navSet(st.cells[l.Cell], l.Path, nv)
		if v.Fn != nil && len(l.Path) == 0 {
			// remember closure identity stored in a local variable
			if st.ghost == nil {
				st.ghost = map[string]SV{}
			}
		}
	case l.Global != nil:
		if ex.FrameChk {
			ex.frameViolation(fr, st, ins, "store to package variable "+l.Global.String())
		}
		st.globals[l.Global] = ex.navSet(ex.globalGet(st, l.Global), l.Path, nv)
	case l.Ref != nil:
		if ex.FrameChk {
			ex.frameStoreCheck(fr, st, ins, l)
		}
		if stt, ok := l.Pointee.Underlying().(*types.Struct); ok {
			if len(l.Path) == 0 {
				for i := 0; i < stt.NumFields(); i++ {
					key := w.fieldHeapKey(l.Pointee, stt, i)
					h := ex.heapGet(st, key, ArraySort(SRef, w.SortOf(stt.Field(i).Type())))
					st.heap[key] = Store(h, l.Ref, w.StructGet(nv, stt, i))
				}
				return
			}
			f := l.Path[0]
			key := w.fieldHeapKey(l.Pointee, stt, f.Field)
			h := ex.heapGet(st, key, ArraySort(SRef, w.SortOf(stt.Field(f.Field).Type())))
			st.heap[key] = Store(h, l.Ref, ex.navSet(Select(h, l.Ref), l.Path[1:], nv))
			return
		}
		key := "P$" + w.SortOf(l.Pointee).Mangle()
		h := ex.heapGet(st, key, ArraySort(SRef, w.SortOf(l.Pointee)))
		st.heap[key] = Store(h, l.Ref, ex.navSet(Select(h, l.Ref), l.Path, nv))
	default:
		unsupp("store to unknown location")
	}
}

func (ex *Ex) unop(fr *Frame, st *State, x *ssa.UnOp) Val {
	switch x.Op {
	case token.MUL: // load
		addr := ex.val(fr, st, x.X)
		return ex.loadFrom(fr, st, addr, x.Type(), x)
	case token.NOT:
		return Val{T: Not(ex.termOf(fr, st, ex.val(fr, st, x.X), x.X.Type()))}
	case token.SUB:
		return Val{T: Sub(IntLit(0), ex.termOf(fr, st, ex.val(fr, st, x.X), x.X.Type()))}
	}
	unsupp("unop %s in %s", x.Op, fr.Name)
	return Val{}
}

func isIface(t types.Type) bool { _, ok := t.Underlying().(*types.Interface); return ok }
func isString(t types.Type) bool {
	b, ok := t.Underlying().(*types.Basic)
	return ok && b.Info()&types.IsString != 0
}
func isInt(t types.Type) bool {
	b, ok := t.Underlying().(*types.Basic)
	return ok && b.Info()&types.IsInteger != 0
}

func (ex *Ex) binop(fr *Frame, st *State, x *ssa.BinOp) Val {
	a := ex.val(fr, st, x.X)
	b := ex.val(fr, st, x.Y)
	xt := x.X.Type()
	switch x.Op {
	case token.EQL, token.NEQ:
		var eq *T
		// pointer comparisons between symbolic pointers
		if a.Ptr != nil || b.Ptr != nil || a.Fn != nil || b.Fn != nil {
			eq = ex.ptrEq(fr, st, a, b, xt)
		} else {
			at := ex.termOf(fr, st, a, xt)
			bt := ex.termOf(fr, st, b, x.Y.Type())
			switch {
			case isIface(xt) && isIface(x.Y.Type()):
				// comparing interfaces with identical non-comparable dynamic types panics
				if !isNilConst(x.X) && !isNilConst(x.Y) {
					ex.panicCheck(fr, st, "ifaceeq", x, "== on interfaces holding a non-comparable dynamic type",
						Or(Not(Eq(Dyn(at), Dyn(bt))), Eq(Dyn(at), IntLit(0)), App("comparable", SBool, Dyn(at))))
				}
				eq = IfaceEq(at, bt)
			case isSliceT(xt):
				// only comparison with nil is legal
				if isNilConst(x.Y) {
					eq = ex.W.SliceIsNil(at)
				} else {
					eq = ex.W.SliceIsNil(bt)
				}
			default:
				eq = Eq(at, bt)
			}
		}
		if x.Op == token.NEQ {
			return Val{T: Not(eq)}
		}
		return Val{T: eq}
	}
	at := ex.termOf(fr, st, a, xt)
	bt := ex.termOf(fr, st, b, x.Y.Type())
	switch x.Op {
	case token.ADD:
		if isString(xt) {
			return Val{T: StrConcat(at, bt)}
		}
		return Val{T: Add(at, bt)}
	case token.SUB:
		return Val{T: Sub(at, bt)}
	case token.MUL:
		return Val{T: App("*", SInt, at, bt)}
	case token.QUO:
		ex.panicCheck(fr, st, "div", x, "division by zero", Not(Eq(bt, IntLit(0))))
		return Val{T: App("gdiv", SInt, at, bt)}
	case token.REM:
		ex.panicCheck(fr, st, "div", x, "division by zero", Not(Eq(bt, IntLit(0))))
		return Val{T: App("grem", SInt, at, bt)}
	case token.LSS:
		if isString(xt) {
			return Val{T: App("str.<", SBool, at, bt)}
		}
		return Val{T: Lt(at, bt)}
	case token.LEQ:
		if isString(xt) {
			return Val{T: App("str.<=", SBool, at, bt)}
		}
		return Val{T: Le(at, bt)}
	case token.GTR:
		if isString(xt) {
			return Val{T: App("str.<", SBool, bt, at)}
		}
		return Val{T: Gt(at, bt)}
	case token.GEQ:
		if isString(xt) {
			return Val{T: App("str.<=", SBool, bt, at)}
		}
		return Val{T: Ge(at, bt)}
	case token.LAND:
		return Val{T: And(at, bt)}
	case token.LOR:
		return Val{T: Or(at, bt)}
	case token.AND, token.OR, token.XOR, token.SHL, token.SHR, token.AND_NOT:
		if at.S.Eq(SBool) {
			if x.Op == token.AND {
				return Val{T: And(at, bt)}
			}
			if x.Op == token.OR {
				return Val{T: Or(at, bt)}
			}
		}
		return Val{T: App("bit"+mangle(x.Op.String()), SInt, at, bt)}
	}
	unsupp("binop %s in %s", x.Op, fr.Name)
	return Val{}
}

func isSliceT(t types.Type) bool { _, ok := t.Underlying().(*types.Slice); return ok }
func isNilConst(v ssa.Value) bool {
	c, ok := v.(*ssa.Const)
	return ok && c.Value == nil
}

func StrConcat(a, b *T) *T {
	if a.Kind == kStr && b.Kind == kStr {
		return StrLit(a.Op + b.Op)
	}
	if a.Kind == kStr && a.Op == "" {
		return b
	}
	if b.Kind == kStr && b.Op == "" {
		return a
	}
	return App("str.++", SString, a, b)
}

func (ex *Ex) ptrEq(fr *Frame, st *State, a, b Val, t types.Type) *T {
	// nil comparisons of local pointers / function values
	if a.Ptr != nil && b.T != nil && b.T.String() == NilRef.String() {
		if a.Ptr.Ref != nil && len(a.Ptr.Path) == 0 {
			return Eq(a.Ptr.Ref, NilRef)
		}
		return tFalse
	}
	if b.Ptr != nil && a.T != nil && a.T.String() == NilRef.String() {
		if b.Ptr.Ref != nil && len(b.Ptr.Path) == 0 {
			return Eq(b.Ptr.Ref, NilRef)
		}
		return tFalse
	}
	if a.Fn != nil && b.T != nil {
		return tFalse // a concrete function is never nil
	}
	if b.Fn != nil && a.T != nil {
		return tFalse
	}
	at := ex.termOf(fr, st, a, t)
	bt := ex.termOf(fr, st, b, t)
	return Eq(at, bt)
}

func (ex *Ex) makeIface(fr *Frame, st *State, v Val, t types.Type) *T {
	w := ex.W
	if isIface(t) {
		return ex.termOf(fr, st, v, t)
	}
	tc := w.TypeConst(t)
	switch t.Underlying().(type) {
	case *types.Pointer, *types.Map, *types.Chan:
		return MkIface(tc, ex.termOf(fr, st, v, t))
	case *types.Signature:
		return MkIface(tc, App("boxfn", SRef, ex.termOf(fr, st, v, t)))
	}
	tv := ex.termOf(fr, st, v, t)
	s := w.SortOf(t)
	bx := App("box$"+s.Mangle(), SRef, tv)
	st.Assume(Eq(App("unbox$"+s.Mangle(), s, bx), tv))
	return MkIface(tc, bx)
}

func (ex *Ex) convert(fr *Frame, st *State, x *ssa.Convert) Val {
	from, to := x.X.Type(), x.Type()
	v := ex.val(fr, st, x.X)
	fs, ts := ex.W.SortOf(from), ex.W.SortOf(to)
	if fs.Eq(ts) {
		if isInt(from) && isInt(to) {
			// integer conversions are identity under the mathematical-integer assumption (T2)
			return v
		}
		return v
	}
	tv := ex.termOf(fr, st, v, from)
	// []byte <-> string
	if isString(from) && isSliceT(to) {
		bs := App("bytesOf", ts, tv)
		st.Assume(And(Eq(ex.W.SliceLen(bs), App("str.len", SInt, tv)), Not(ex.W.SliceIsNil(bs))))
		return Val{T: bs}
	}
	if isSliceT(from) && isString(to) {
		return Val{T: App("stringOf$"+fs.Mangle(), SString, tv)}
	}
	if isInt(from) && isString(to) {
		return Val{T: App("runeString", SString, tv)}
	}
	return Val{T: App("conv$"+fs.Mangle()+"$"+ts.Mangle(), ts, tv)}
}

func (ex *Ex) typeAssert(fr *Frame, st *State, x *ssa.TypeAssert) {
	w := ex.W
	iv := ex.termOf(fr, st, ex.val(fr, st, x.X), x.X.Type())
	var ok *T
	var res *T
	at := x.AssertedType
	if isIface(at) {
		ok = And(Not(IfaceIsNil(iv)), ex.implementsTerm(Dyn(iv), at.Underlying().(*types.Interface)))
		res = iv
		if x.CommaOk {
			res = Ite(ok, iv, NilIface)
		}
	} else {
		ok = Eq(Dyn(iv), w.TypeConst(at))
		res = ex.unboxAs(iv, at)
		if _, isPtr := at.Underlying().(*types.Pointer); isPtr {
			// T13: interface values never hold typed-nil pointers
			st.Assume(Implies(ok, Not(Eq(res, NilRef))))
		}
		if x.CommaOk {
			res = Ite(ok, res, w.Zero(at))
		}
	}
	if x.CommaOk {
		okv := ex.FreshVar("ok", SBool)
		st.Assume(Eq(okv, ok))
		// keep res guarded by the literal condition for readability of models
		st.regs[x] = Val{Tuple: []Val{{T: res}, {T: okv}}}
		// type invariant of the asserted type holds when ok
		ex.assumeTypeInvIf(fr, st, at, res, okv)
		return
	}
	ex.panicCheck(fr, st, "typeassert", x, fmt.Sprintf("type assertion .(%s) must not fail", w.shortType(at)), ok)
	st.regs[x] = Val{T: res}
	ex.assumeTypeInvIf(fr, st, at, res, tTrue)
}

// unboxAs extracts the concrete value of Go type t from interface value iv.
func (ex *Ex) unboxAs(iv *T, t types.Type) *T {
	w := ex.W
	switch t.Underlying().(type) {
	case *types.Pointer, *types.Map, *types.Chan:
		return ValOf(iv)
	case *types.Signature:
		return App("unboxfn", SFn, ValOf(iv))
	}
	s := w.SortOf(t)
	return App("unbox$"+s.Mangle(), s, ValOf(iv))
}

// implementsTerm: dynamic type d has all methods of the interface.
func (ex *Ex) implementsTerm(d *T, it *types.Interface) *T {
	var cs []*T
	for i := 0; i < it.NumMethods(); i++ {
		m := it.Method(i)
		cs = append(cs, App(hasMethodSym(m.Name(), m.Type().(*types.Signature)), SBool, d))
	}
	if len(cs) == 0 {
		return tTrue
	}
	return And(cs...)
}

func hasMethodSym(name string, sig *types.Signature) string {
	// parameter names are not part of a method's identity: use the types only
	q := func(p *types.Package) string { return p.Path() }
	var ps, rs []string
	for j := 0; j < sig.Params().Len(); j++ {
		t := types.TypeString(deepUnalias(sig.Params().At(j).Type()), q)
		if sig.Variadic() && j == sig.Params().Len()-1 {
			t = "..." + strings.TrimPrefix(t, "[]")
		}
		ps = append(ps, t)
	}
	for j := 0; j < sig.Results().Len(); j++ {
		rs = append(rs, types.TypeString(deepUnalias(sig.Results().At(j).Type()), q))
	}
	return canonMethodSym(name, ps, rs)
}

func canonMethodSym(name string, ps, rs []string) string {
	for i := range ps {
		ps[i] = strings.ReplaceAll(ps[i], "any", "interface{}")
	}
	for i := range rs {
		rs[i] = strings.ReplaceAll(rs[i], "any", "interface{}")
	}
	return "hasM$" + name + "$" + mangle("("+strings.Join(ps, ",")+")("+strings.Join(rs, ",")+")")
}

// methodSymFromSpec parses "Name(T1, T2) R" / "Name() (R1, R2)" as written in contracts.
func methodSymFromSpec(s string) (string, bool) {
	k := strings.Index(s, "(")
	if k < 0 {
		return "", false
	}
	name := strings.TrimSpace(s[:k])
	depth := 0
	end := -1
	for i := k; i < len(s); i++ {
		if s[i] == '(' {
			depth++
		} else if s[i] == ')' {
			depth--
			if depth == 0 {
				end = i
				break
			}
		}
	}
	if end < 0 {
		return "", false
	}
	split := func(x string) []string {
		x = strings.TrimSpace(x)
		if x == "" {
			return nil
		}
		var out []string
		for _, p := range strings.Split(x, ",") {
			out = append(out, strings.TrimSpace(p))
		}
		return out
	}
	ps := split(s[k+1 : end])
	rest := strings.TrimSpace(s[end+1:])
	var rs []string
	if strings.HasPrefix(rest, "(") && strings.HasSuffix(rest, ")") {
		rs = split(rest[1 : len(rest)-1])
	} else {
		rs = split(rest)
	}
	return canonMethodSym(name, ps, rs), true
}

func (ex *Ex) indexAddr(fr *Frame, st *State, x *ssa.IndexAddr) {
	w := ex.W
	base := ex.val(fr, st, x.X)
	idx := ex.termOf(fr, st, ex.val(fr, st, x.Index), x.Index.Type())
	switch bt := x.X.Type().Underlying().(type) {
	case *types.Pointer: // pointer to array
		at := bt.Elem().Underlying().(*types.Array)
		ex.panicCheck(fr, st, "index", x, "array index out of range", And(Ge(idx, IntLit(0)), Lt(idx, IntLit(at.Len()))))
		l := ex.asLoc(fr, st, base, bt.Elem(), x)
		nl := *l
		nl.Path = append(append([]Step(nil), l.Path...), Step{IsIndex: true, Index: idx, Elem: at.Elem()})
		st.regs[x] = Val{Ptr: &nl}
	case *types.Slice:
		if base.Back != 0 {
			ex.panicCheck(fr, st, "index", x, "slice index out of range", And(Ge(idx, IntLit(0)), Lt(idx, base.BackLen)))
			st.regs[x] = Val{Ptr: &Loc{Cell: base.Back, Pointee: st.cellType[base.Back], Path: []Step{{IsIndex: true, Index: Add(idx, base.BackOff), Elem: bt.Elem()}}}}
			return
		}
		sv := ex.termOf(fr, st, base, x.X.Type())
		ex.panicCheck(fr, st, "index", x, "slice index out of range", And(Ge(idx, IntLit(0)), Lt(idx, w.SliceLen(sv))))
		if p, isParam := x.X.(*ssa.Parameter); isParam && base.Origin == nil {
			// a slice parameter whose elements are written: copy it into a local cell (the caller's
			// view of the backing array is not modelled; the function's own later reads are)
			ex.ncell++
			id := ex.ncell
			st.cells[id] = sv
			st.cellType = copyCellTypes(st.cellType)
			st.cellType[id] = p.Type()
			base = Val{Origin: &Loc{Cell: id, Pointee: p.Type()}}
			st.regs[p] = base
		}
		if base.Origin != nil {
			// element of the slice value stored in a local variable: stores update that variable
			nl := *base.Origin
			nl.Path = append(append([]Step(nil), base.Origin.Path...), Step{IsSliceElem: true, Index: idx, Elem: bt.Elem()})
			st.regs[x] = Val{Ptr: &nl}
			return
		}
		// read-only element pointer into a slice value
		st.regs[x] = Val{Ptr: &Loc{Snap: Select(w.SliceArr(sv, w.SortOf(bt.Elem())), idx), Pointee: bt.Elem()}}
	default:
		unsupp("IndexAddr on %s", x.X.Type())
	}
}

func (ex *Ex) index(fr *Frame, st *State, x *ssa.Index) {
	base := ex.termOf(fr, st, ex.val(fr, st, x.X), x.X.Type())
	idx := ex.termOf(fr, st, ex.val(fr, st, x.Index), x.Index.Type())
	switch bt := x.X.Type().Underlying().(type) {
	case *types.Array:
		ex.panicCheck(fr, st, "index", x, "array index out of range", And(Ge(idx, IntLit(0)), Lt(idx, IntLit(bt.Len()))))
		st.regs[x] = Val{T: Select(base, idx)}
	case *types.Basic: // string
		ex.panicCheck(fr, st, "index", x, "string index out of range", And(Ge(idx, IntLit(0)), Lt(idx, App("str.len", SInt, base))))
		st.regs[x] = Val{T: App("byteAt", SInt, base, idx)}
	default:
		unsupp("Index on %s", x.X.Type())
	}
}

func (ex *Ex) slice(fr *Frame, st *State, x *ssa.Slice) {
	w := ex.W
	base := ex.val(fr, st, x.X)
	var lo, hi *T
	if x.Low != nil {
		lo = ex.termOf(fr, st, ex.val(fr, st, x.Low), x.Low.Type())
	} else {
		lo = IntLit(0)
	}
	switch bt := x.X.Type().Underlying().(type) {
	case *types.Basic: // string
		s := ex.termOf(fr, st, base, x.X.Type())
		ln := App("str.len", SInt, s)
		if x.High != nil {
			hi = ex.termOf(fr, st, ex.val(fr, st, x.High), x.High.Type())
		} else {
			hi = ln
		}
		ex.panicCheck(fr, st, "slice", x, "string slice bounds out of range", And(Le(IntLit(0), lo), Le(lo, hi), Le(hi, ln)))
		st.regs[x] = Val{T: App("str.substr", SString, s, lo, Sub(hi, lo))}
	case *types.Pointer: // *array
		at := bt.Elem().Underlying().(*types.Array)
		if x.High != nil {
			hi = ex.termOf(fr, st, ex.val(fr, st, x.High), x.High.Type())
		} else {
			hi = IntLit(at.Len())
		}
		ex.panicCheck(fr, st, "slice", x, "slice bounds out of range", And(Le(IntLit(0), lo), Le(lo, hi), Le(hi, IntLit(at.Len()))))
		if base.Ptr != nil && base.Ptr.Cell > 0 && len(base.Ptr.Path) == 0 {
			st.regs[x] = Val{Back: base.Ptr.Cell, BackLen: Sub(hi, lo), BackOff: lo, BackElem: at.Elem()}
			return
		}
		unsupp("slice of non-local array in %s", fr.Name)
	case *types.Slice:
		es := w.SortOf(bt.Elem())
		if base.Back != 0 {
			if x.High != nil {
				hi = ex.termOf(fr, st, ex.val(fr, st, x.High), x.High.Type())
			} else {
				hi = base.BackLen
			}
			// cap is not modelled: require hi <= len (stricter than Go; reported as assumption)
			ex.panicCheck(fr, st, "slice", x, "slice bounds out of range", And(Le(IntLit(0), lo), Le(lo, hi), Le(hi, base.BackLen)))
			st.regs[x] = Val{Back: base.Back, BackLen: Sub(hi, lo), BackOff: Add(base.BackOff, lo), BackElem: base.BackElem}
			return
		}
		sv := ex.termOf(fr, st, base, x.X.Type())
		ln := w.SliceLen(sv)
		if x.High != nil {
			hi = ex.termOf(fr, st, ex.val(fr, st, x.High), x.High.Type())
		} else {
			hi = ln
		}
		ex.panicCheck(fr, st, "slice", x, "slice bounds out of range (cap treated as len)", And(Le(IntLit(0), lo), Le(lo, hi), Le(hi, ln)))
		arr := w.SliceArr(sv, es)
		if !(lo.Kind == kInt && lo.Op == "0") {
			sh := ex.FreshVar("sub", ArraySort(SInt, es))
			j := Var("j!s", SInt)
			st.Assume(Forall([]*T{j}, Eq(Select(sh, j), Select(arr, Add(j, lo)))))
			arr = sh
		}
		st.regs[x] = Val{T: w.MkSlice(es, arr, Sub(hi, lo), w.SliceIsNil(sv))}
	default:
		unsupp("Slice on %s", x.X.Type())
	}
}

func (ex *Ex) mapContent(st *State, m *T, mt *types.Map) (*T, string, *Sort) {
	w := ex.W
	ks, vs := w.SortOf(mt.Key()), w.SortOf(mt.Elem())
	ms := w.mapValSort(ks, vs)
	hk := mapHeapKey(ks, vs)
	h := ex.heapGet(st, hk, ArraySort(SRef, ms))
	return Select(h, m), hk, ms
}

func MapHas(mv *T, ks *Sort, k *T) *T {
	return Select(mapHasArr(mv, ks), k)
}
func mapHasArr(mv *T, ks *Sort) *T {
	if mv.Kind == kApp && strings.HasPrefix(mv.Op, "mk$Map$") {
		return mv.Args[0]
	}
	return App("has$"+mv.S.Name, ArraySort(ks, SBool), mv)
}
func mapGetArr(mv *T, ks, vs *Sort) *T {
	if mv.Kind == kApp && strings.HasPrefix(mv.Op, "mk$Map$") {
		return mv.Args[1]
	}
	return App("get$"+mv.S.Name, ArraySort(ks, vs), mv)
}

func (ex *Ex) lookup(fr *Frame, st *State, x *ssa.Lookup) {
	w := ex.W
	switch mt := x.X.Type().Underlying().(type) {
	case *types.Map:
		m := ex.termOf(fr, st, ex.val(fr, st, x.X), x.X.Type())
		k := ex.termOf(fr, st, ex.val(fr, st, x.Index), x.Index.Type())
		ks, vs := w.SortOf(mt.Key()), w.SortOf(mt.Elem())
		mv, _, _ := ex.mapContent(st, m, mt)
		// a nil map reads as empty
		has := And(Not(Eq(m, NilRef)), MapHas(mv, ks, k))
		v := Ite(has, Select(mapGetArr(mv, ks, vs), k), w.Zero(mt.Elem()))
		if x.CommaOk {
			st.regs[x] = Val{Tuple: []Val{{T: v}, {T: has}}}
		} else {
			st.regs[x] = Val{T: v}
		}
		if isFuncType(mt.Elem()) {
			ex.registryLookupFacts(fr, st, x, v, has)
		}
	case *types.Basic:
		ex.index(fr, st, &ssa.Index{X: x.X, Index: x.Index})
		unsupp("string lookup")
	default:
		unsupp("Lookup on %s", x.X.Type())
	}
}

func isFuncType(t types.Type) bool { _, ok := t.Underlying().(*types.Signature); return ok }

func (ex *Ex) mapUpdate(fr *Frame, st *State, x *ssa.MapUpdate) {
	w := ex.W
	mt := x.Map.Type().Underlying().(*types.Map)
	m := ex.termOf(fr, st, ex.val(fr, st, x.Map), x.Map.Type())
	k := ex.termOf(fr, st, ex.val(fr, st, x.Key), x.Key.Type())
	v := ex.termOf(fr, st, ex.val(fr, st, x.Value), x.Value.Type())
	ex.panicCheck(fr, st, "mapupdate", x, "assignment to entry in nil map", Not(Eq(m, NilRef)))
	if ex.FrameChk {
		ex.frameMapCheck(fr, st, x, m)
	}
	ks, vs := w.SortOf(mt.Key()), w.SortOf(mt.Elem())
	mv, hk, ms := ex.mapContent(st, m, mt)
	nmv := App("mk$"+ms.Name, ms, Store(mapHasArr(mv, ks), k, tTrue), Store(mapGetArr(mv, ks, vs), k, v))
	st.heap[hk] = Store(st.heap[hk], m, nmv)
}

// ---------------- type invariants ----------------

// activeProp: a clause scoped to properties is active when no property filter is set or one matches.
func (ex *Ex) activeProps(ps []string) bool {
	if len(ps) == 0 || ex.Props == nil {
		return true
	}
	for _, p := range ps {
		if ex.Props[p] {
			return true
		}
	}
	return false
}

func (ex *Ex) typeInvsFor(t types.Type) ([]*TypeInv, types.Type) {
	// t is the struct's named type or a pointer to it
	if p, ok := t.Underlying().(*types.Pointer); ok {
		t = p.Elem()
	}
	t = deepUnalias(t)
	var out []*TypeInv
	for _, ti := range ex.W.TypeInvs[t.String()] {
		if ex.activeProps(ti.Props) {
			out = append(out, ti)
		}
	}
	return out, t
}

func (ex *Ex) oneTypeInvTerm(fr *Frame, st *State, ti *TypeInv, named types.Type, ref *T) *T {
	env := ex.newEnv(fr, st)
	env.pkgName = ti.PkgName
	env.vars["self"] = SV{T: ref, Ty: SType{G: types.NewPointer(named)}}
	tt, err := ex.trBool(env, ti.E)
	if err != nil {
		ex.W.warnf("%s:%d: type invariant: %v", ti.File, ti.Line, err)
		return nil
	}
	return tt
}

func (ex *Ex) typeInvTerm(fr *Frame, st *State, t types.Type, ref *T) *T {
	tis, named := ex.typeInvsFor(t)
	if len(tis) == 0 {
		return nil
	}
	var cs []*T
	for _, ti := range tis {
		if tt := ex.oneTypeInvTerm(fr, st, ti, named, ref); tt != nil {
			cs = append(cs, tt)
		}
	}
	if len(cs) == 0 {
		return nil
	}
	return And(cs...)
}

func (ex *Ex) assumeTypeInvIf(fr *Frame, st *State, t types.Type, v *T, cond *T) {
	if _, ok := t.Underlying().(*types.Pointer); !ok {
		return
	}
	inv := ex.typeInvTerm(fr, st, t, v)
	if inv != nil {
		st.Assume(Implies(And(cond, Not(Eq(v, NilRef))), inv))
	}
}

func (ex *Ex) assertTypeInv(fr *Frame, st *State, t types.Type, ref *T) {
	tis, named := ex.typeInvsFor(t)
	for k, ti := range tis {
		inv := ex.oneTypeInvTerm(fr, st, ti, named, ref)
		if inv == nil {
			continue
		}
		name := fmt.Sprintf("%s#inv.%s", ex.topPrefix(fr), shortTypeName(t))
		if k > 0 {
			name += fmt.Sprintf(".%d", k+1)
		}
		props := ex.safetyProps(fr)
		if len(ti.Props) > 0 {
			props = ti.Props
		}
		ex.oblige(fr, st, name, "typeinv", props, "type invariant of freshly built "+ex.W.shortType(t)+": "+ti.Text, inv, token.NoPos)
	}
}

func (ex *Ex) topPrefix(fr *Frame) string {
	prefix := ex.Top.Name
	if fr != ex.Top {
		prefix += "#in." + fr.Name
	}
	return prefix
}

func shortTypeName(t types.Type) string {
	s := t.String()
	if i := strings.LastIndex(s, "."); i >= 0 {
		s = s[i+1:]
	}
	return s
}

// cellsForWrittenSliceParams: a slice parameter whose elements the function writes is kept in a
// local cell from the start (so that loops havoc it and old(p) / p denote entry / current content).
func (ex *Ex) cellsForWrittenSliceParams(fn *ssa.Function, st *State) {
	for _, p := range fn.Params {
		if _, ok := p.Type().Underlying().(*types.Slice); !ok {
			continue
		}
		written := false
		if refs := p.Referrers(); refs != nil {
			for _, r := range *refs {
				ia, ok := r.(*ssa.IndexAddr)
				if !ok || ia.X != p {
					continue
				}
				var chase func(v ssa.Value, d int)
				chase = func(v ssa.Value, d int) {
					rr := v.Referrers()
					if rr == nil || d > 4 {
						return
					}
					for _, u := range *rr {
						switch y := u.(type) {
						case *ssa.Store:
							if y.Addr == v {
								written = true
							}
						case *ssa.FieldAddr:
							chase(y, d+1)
						case *ssa.IndexAddr:
							chase(y, d+1)
						}
					}
				}
				chase(ia, 0)
			}
		}
		if !written {
			continue
		}
		cur, ok := st.regs[p]
		if !ok || cur.T == nil || cur.Origin != nil || cur.Back != 0 {
			continue
		}
		ex.ncell++
		id := ex.ncell
		st.cells[id] = cur.T
		st.cellType = copyCellTypes(st.cellType)
		st.cellType[id] = p.Type()
		st.regs[p] = Val{Origin: &Loc{Cell: id, Pointee: p.Type()}}
	}
}
