package main

// Replay template for the unknowing-receiver lemmas (C04): encode a value of the registered type,
// rename the type family on the wire (the receiver does not know it), decode and compare the text.

import "strings"

func unknowingReplay(w *World, o *Obligation, q *Query, _ map[string]string) (string, string) {
	if !strings.HasPrefix(o.Name, "lemma.unknowing_") {
		return "", ""
	}
	which := strings.TrimPrefix(strings.SplitN(o.Name, "#", 2)[0], "lemma.unknowing_")
	build := map[string]string{
		"withPrefix":     `errors.WithMessage(goerrors.New("c"), "p")`,
		"withNewMessage": `verifFind(errors.Newf("new %w", goerrors.New("c")), "withNewMessage")`,
		"barrierErr":     `errors.Handled(fmt.Errorf("secret %s", "c"))`,
		"joinError":      `errors.UnwrapOnce(errors.Join(goerrors.New("a"), goerrors.New("b")))`,
		"leafError":      `errors.UnwrapOnce(errors.New("leaf"))`,
	}[which]
	if build == "" {
		return "", ""
	}
	src := `package errors_test

import (
	"context"
	goerrors "errors"
	"fmt"
	"testing"

	"github.com/cockroachdb/errors"
	"github.com/cockroachdb/errors/errorspb"
)

func verifFind(e error, name string) error {
	for c := e; c != nil; c = errors.UnwrapOnce(c) {
		if fmt.Sprintf("%T", c) == "*errutil."+name {
			return c
		}
	}
	return e
}

func verifRename(enc *errorspb.EncodedError) {
	if w := enc.GetWrapper(); w != nil {
		w.Details.ErrorTypeMark.FamilyName += "/unknown"
	} else if l := enc.GetLeaf(); l != nil {
		l.Details.ErrorTypeMark.FamilyName += "/unknown"
	}
}

// Replay of obligation ` + o.Name + `
func TestVerifReplay(t *testing.T) {
	_ = fmt.Sprint
	_ = goerrors.New
	e := ` + build + `
	enc := errors.EncodeError(context.Background(), e)
	verifRename(&enc)
	d := errors.DecodeError(context.Background(), enc)
	t.Logf("origin %T %q; unknowing receiver %T %q", e, e.Error(), d, d.Error())
	if d.Error() != e.Error() {
		t.Fatalf("REPLAY-CONFIRMED: a receiver that does not know %T shows %q instead of %q", e, d.Error(), e.Error())
	}
}
`
	return ".", src
}

func init() {
	registerReplayFirst(`^lemma\.unknowing_`, unknowingReplay)
}
