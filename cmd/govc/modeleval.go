package main

// S-expression parsing and evaluation of z3 models (for replay generation).

import (
	"strconv"
	"strings"
)

type sx struct {
	atom string
	list []*sx
	str  bool // atom is a string literal (unquoted content in atom)
}

func (s *sx) isAtom() bool { return s.list == nil }

func (s *sx) String() string {
	if s == nil {
		return "<nil>"
	}
	if s.isAtom() {
		if s.str {
			return strconv.Quote(s.atom)
		}
		return s.atom
	}
	var parts []string
	for _, x := range s.list {
		parts = append(parts, x.String())
	}
	return "(" + strings.Join(parts, " ") + ")"
}

func parseSexps(src string) []*sx {
	var out []*sx
	i := 0
	for {
		x, j := parseSx(src, i)
		if x == nil {
			return out
		}
		out = append(out, x)
		i = j
	}
}

func parseSx(s string, i int) (*sx, int) {
	for i < len(s) && (s[i] == ' ' || s[i] == '\n' || s[i] == '\t' || s[i] == '\r') {
		i++
	}
	if i >= len(s) {
		return nil, i
	}
	switch s[i] {
	case '(':
		i++
		l := &sx{list: []*sx{}}
		for {
			for i < len(s) && (s[i] == ' ' || s[i] == '\n' || s[i] == '\t' || s[i] == '\r') {
				i++
			}
			if i >= len(s) {
				return l, i
			}
			if s[i] == ')' {
				return l, i + 1
			}
			x, j := parseSx(s, i)
			if x == nil {
				return l, j
			}
			l.list = append(l.list, x)
			i = j
		}
	case ')':
		return nil, i + 1
	case '"':
		j := i + 1
		var b strings.Builder
		for j < len(s) {
			if s[j] == '"' {
				if j+1 < len(s) && s[j+1] == '"' {
					b.WriteByte('"')
					j += 2
					continue
				}
				break
			}
			b.WriteByte(s[j])
			j++
		}
		return &sx{atom: unescapeSMT(b.String()), str: true}, j + 1
	case '|':
		j := strings.IndexByte(s[i+1:], '|')
		if j < 0 {
			return &sx{atom: s[i+1:]}, len(s)
		}
		return &sx{atom: s[i+1 : i+1+j]}, i + 2 + j
	}
	j := i
	for j < len(s) && !strings.ContainsRune(" \n\t\r()", rune(s[j])) {
		j++
	}
	return &sx{atom: s[i:j]}, j
}

func unescapeSMT(s string) string {
	// \u{XX} escapes
	var b strings.Builder
	for i := 0; i < len(s); i++ {
		if strings.HasPrefix(s[i:], "\\u{") {
			j := strings.IndexByte(s[i:], '}')
			if j > 0 {
				if n, err := strconv.ParseInt(s[i+3:i+j], 16, 32); err == nil {
					b.WriteRune(rune(n))
					i += j
					continue
				}
			}
		}
		b.WriteByte(s[i])
	}
	return b.String()
}

// Model holds the definitions of a z3 model.
type Model struct {
	consts map[string]*sx
	funs   map[string]*modelFun
}

type modelFun struct {
	params []string
	body   *sx
}

func ParseModel(out string) *Model {
	m := &Model{consts: map[string]*sx{}, funs: map[string]*modelFun{}}
	i := strings.Index(out, "(")
	if i < 0 {
		return m
	}
	tops := parseSexps(out[i:])
	for _, top := range tops {
		defs := top.list
		if len(defs) > 0 && defs[0].isAtom() && defs[0].atom == "define-fun" {
			defs = []*sx{top}
		}
		for _, d := range defs {
			if d.isAtom() || len(d.list) < 5 || d.list[0].atom != "define-fun" {
				continue
			}
			name := d.list[1].atom
			params := d.list[2]
			body := d.list[4]
			if len(params.list) == 0 {
				m.consts[name] = body
			} else {
				var ps []string
				for _, p := range params.list {
					ps = append(ps, p.list[0].atom)
				}
				m.funs[name] = &modelFun{ps, body}
			}
		}
	}
	return m
}

// Eval normalises a model value: expands let, ite over literals, function application.
func (m *Model) Eval(x *sx, env map[string]*sx, depth int) *sx {
	if x == nil || depth > 200 {
		return x
	}
	if x.isAtom() {
		if x.str {
			return x
		}
		if v, ok := env[x.atom]; ok {
			return v
		}
		if v, ok := m.consts[x.atom]; ok {
			return m.Eval(v, nil, depth+1)
		}
		return x
	}
	if len(x.list) == 0 {
		return x
	}
	h := x.list[0]
	if h.isAtom() {
		switch h.atom {
		case "let":
			ne := map[string]*sx{}
			for k, v := range env {
				ne[k] = v
			}
			for _, b := range x.list[1].list {
				ne[b.list[0].atom] = m.Eval(b.list[1], env, depth+1)
			}
			return m.Eval(x.list[2], ne, depth+1)
		case "ite":
			c := m.Eval(x.list[1], env, depth+1)
			if c.isAtom() && c.atom == "true" {
				return m.Eval(x.list[2], env, depth+1)
			}
			if c.isAtom() && c.atom == "false" {
				return m.Eval(x.list[3], env, depth+1)
			}
		case "=":
			a := m.Eval(x.list[1], env, depth+1)
			b := m.Eval(x.list[2], env, depth+1)
			if a.String() == b.String() {
				return &sx{atom: "true"}
			}
			if isLiteral(a) && isLiteral(b) {
				return &sx{atom: "false"}
			}
		case "not":
			a := m.Eval(x.list[1], env, depth+1)
			if a.isAtom() && a.atom == "true" {
				return &sx{atom: "false"}
			}
			if a.isAtom() && a.atom == "false" {
				return &sx{atom: "true"}
			}
		case "and":
			all := true
			for _, a := range x.list[1:] {
				v := m.Eval(a, env, depth+1)
				if v.isAtom() && v.atom == "false" {
					return v
				}
				if !(v.isAtom() && v.atom == "true") {
					all = false
				}
			}
			if all {
				return &sx{atom: "true"}
			}
		case "or":
			none := true
			for _, a := range x.list[1:] {
				v := m.Eval(a, env, depth+1)
				if v.isAtom() && v.atom == "true" {
					return v
				}
				if !(v.isAtom() && v.atom == "false") {
					none = false
				}
			}
			if none {
				return &sx{atom: "false"}
			}
		case "-":
			if len(x.list) == 2 {
				a := m.Eval(x.list[1], env, depth+1)
				if n, err := strconv.ParseInt(a.atom, 10, 64); err == nil && a.isAtom() {
					return &sx{atom: strconv.FormatInt(-n, 10)}
				}
			}
		}
		if f, ok := m.funs[h.atom]; ok && len(f.params) == len(x.list)-1 {
			ne := map[string]*sx{}
			for i, p := range f.params {
				ne[p] = m.Eval(x.list[i+1], env, depth+1)
			}
			return m.Eval(f.body, ne, depth+1)
		}
	}
	out := &sx{list: make([]*sx, len(x.list))}
	for i, a := range x.list {
		out.list[i] = m.Eval(a, env, depth+1)
	}
	return out
}

func isLiteral(x *sx) bool {
	if !x.isAtom() {
		// negative ints are printed (- n)
		return len(x.list) == 2 && x.list[0].atom == "-"
	}
	if x.str {
		return true
	}
	if _, err := strconv.ParseInt(x.atom, 10, 64); err == nil {
		return true
	}
	return x.atom == "true" || x.atom == "false" || strings.Contains(x.atom, "!val!")
}

func (m *Model) Const(name string) *sx {
	v, ok := m.consts[name]
	if !ok {
		return nil
	}
	return m.Eval(v, nil, 0)
}

func sxInt(x *sx) (int64, bool) {
	if x == nil {
		return 0, false
	}
	if x.isAtom() {
		n, err := strconv.ParseInt(x.atom, 10, 64)
		return n, err == nil
	}
	if len(x.list) == 2 && x.list[0].atom == "-" {
		n, ok := sxInt(x.list[1])
		return -n, ok
	}
	return 0, false
}

// ArrayAt evaluates (select arr idx) for const/store/as-array/lambda array values.
func (m *Model) ArrayAt(arr *sx, idx *sx) *sx {
	for depth := 0; depth < 10000; depth++ {
		if arr == nil || arr.isAtom() || len(arr.list) == 0 {
			return nil
		}
		h := arr.list[0]
		if h.isAtom() && h.atom == "store" && len(arr.list) == 4 {
			if arr.list[2].String() == idx.String() {
				return arr.list[3]
			}
			arr = arr.list[1]
			continue
		}
		if !h.isAtom() && len(h.list) >= 2 && h.list[0].atom == "as" && h.list[1].atom == "const" {
			return arr.list[1]
		}
		if h.isAtom() && h.atom == "_" && len(arr.list) == 3 && arr.list[1].atom == "as-array" {
			f := m.funs[arr.list[2].atom]
			if f == nil {
				return nil
			}
			return m.Eval(f.body, map[string]*sx{f.params[0]: idx}, 0)
		}
		if h.isAtom() && h.atom == "lambda" {
			p := arr.list[1].list[0].list[0].atom
			return m.Eval(arr.list[2], map[string]*sx{p: idx}, 0)
		}
		return nil
	}
	return nil
}

// CtorArgs returns the arguments if x is an application of ctor.
func CtorArgs(x *sx, ctor string) []*sx {
	if x == nil || x.isAtom() || len(x.list) == 0 || !x.list[0].isAtom() || x.list[0].atom != ctor {
		return nil
	}
	return x.list[1:]
}
