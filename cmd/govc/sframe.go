package main

// Syntactic read-only frame rule (C18), used for the functions whose symbolic execution is
// abandoned (outside the executor's subset / path cap): every Store, MapUpdate and pointer / map
// argument that a module callee may write through must be rooted, along its SSA def chain, in
// objects the call owns. The rule is flow-insensitive and purely structural:
//
//   owned roots:  Alloc (local variable or new object), MakeSlice/MakeMap/MakeChan, nil constants,
//                 parameters and free variables that are not error objects (declared outputs such
//                 as *state, the seen-map, captured locals of the enclosing call),
//                 results of allocating callees (every return value rooted in an owned root)
//   transparent:  FieldAddr, IndexAddr, Slice, Index, Field, Lookup, Phi (all edges), ChangeType,
//                 Convert, MakeInterface, Extract, Range/Next, loads (what an owned object refers
//                 to is owned - assumption A18.1: per-call state never aliases error objects)
//   never owned:  anything reached through a value of type pointer-to-error-struct that is not
//                 itself an Alloc (receivers, type-asserted errors, loaded cause pointers),
//                 package-level variables, results of other calls
//
// Obligation names: <func>#sframe.N (N-th store-like instruction in source order).

import (
	"fmt"
	"os"
	"path/filepath"
	"go/token"
	"go/types"
	"sort"
	"strings"

	"golang.org/x/tools/go/ssa"
)

func (w *World) ownedRoot(v ssa.Value, seen map[ssa.Value]bool, depth int, content bool) (bool, string) {
	if v == nil {
		return true, ""
	}
	if seen[v] {
		return true, ""
	}
	seen[v] = true
	if depth > 60 {
		return false, "def chain too deep"
	}
	// an error object that is not freshly allocated is never owned
	if pt, ok := v.Type().Underlying().(*types.Pointer); ok && w.isErrorStruct(pt.Elem()) {
		switch x := v.(type) {
		case *ssa.Alloc:
			return true, ""
		case *ssa.Phi:
			for _, e := range x.Edges {
				if ok, why := w.ownedRoot(e, seen, depth+1, content); !ok {
					return false, why
				}
			}
			return true, ""
		case *ssa.Const:
			return true, ""
		}
		return false, "error object " + v.Name() + " (" + v.Type().String() + ") is not allocated in this call"
	}
	if a, isAlloc := v.(*ssa.Alloc); isAlloc && content {
		// asked about what the local HOLDS (a value read back / copied out of it), not about the
		// local as a store target: everything stored into it must be owned
		for _, sv := range storesInto(a) {
			if ok, why := w.ownedRoot(sv, seen, depth+1, true); !ok {
				return false, "local " + a.Comment + " holds " + why
			}
		}
		return true, ""
	}
	switch x := v.(type) {
	case *ssa.Alloc, *ssa.MakeSlice, *ssa.MakeMap, *ssa.MakeChan, *ssa.Const, *ssa.MakeClosure:
		return true, ""
	case *ssa.Parameter:
		if types.Identical(x.Type(), types.Universe.Lookup("error").Type()) {
			return false, "error parameter " + x.Name()
		}
		return true, ""
	case *ssa.FreeVar:
		return true, ""
	case *ssa.Global:
		return false, "package variable " + x.Name()
	case *ssa.FieldAddr:
		return w.ownedRoot(x.X, seen, depth+1, content)
	case *ssa.IndexAddr:
		return w.ownedRoot(x.X, seen, depth+1, content)
	case *ssa.Field:
		return w.ownedRoot(x.X, seen, depth+1, content)
	case *ssa.Index:
		return w.ownedRoot(x.X, seen, depth+1, content)
	case *ssa.Slice:
		return w.ownedRoot(x.X, seen, depth+1, content)
	case *ssa.Lookup:
		return w.ownedRoot(x.X, seen, depth+1, content)
	case *ssa.ChangeType:
		return w.ownedRoot(x.X, seen, depth+1, content)
	case *ssa.Convert:
		return w.ownedRoot(x.X, seen, depth+1, content)
	case *ssa.ChangeInterface:
		return w.ownedRoot(x.X, seen, depth+1, content)
	case *ssa.MakeInterface:
		return w.ownedRoot(x.X, seen, depth+1, content)
	case *ssa.TypeAssert:
		return w.ownedRoot(x.X, seen, depth+1, content)
	case *ssa.Extract:
		return w.ownedRoot(x.Tuple, seen, depth+1, content)
	case *ssa.Next:
		return w.ownedRoot(x.Iter, seen, depth+1, content)
	case *ssa.Range:
		return w.ownedRoot(x.X, seen, depth+1, content)
	case *ssa.UnOp:
		if x.Op == token.MUL {
			// what is read back from a local variable is owned only if everything the function
			// (or a closure capturing the variable) stores into that variable is owned: a callee's
			// result parked in a local does not become the call's property
			if a := allocRootOf(x.X); a != nil {
				switch x.Type().Underlying().(type) {
				case *types.Pointer, *types.Slice, *types.Map, *types.Struct, *types.Interface:
					for _, sv := range storesInto(a) {
						if ok, why := w.ownedRoot(sv, seen, depth+1, true); !ok {
							return false, "read back from local " + a.Comment + ", which holds " + why
						}
					}
				}
			}
			return w.ownedRoot(x.X, seen, depth+1, content)
		}
		return true, ""
	case *ssa.BinOp:
		return true, ""
	case *ssa.Phi:
		for _, e := range x.Edges {
			if ok, why := w.ownedRoot(e, seen, depth+1, content); !ok {
				return false, why
			}
		}
		return true, ""
	case *ssa.Call:
		if b, ok := x.Call.Value.(*ssa.Builtin); ok {
			switch b.Name() {
			case "append":
				// the result may share the first argument's backing array
				for _, a := range x.Call.Args {
					if ok, why := w.ownedRoot(a, seen, depth+1, content); !ok {
						return false, why
					}
				}
				return true, ""
			default:
				return true, ""
			}
		}
		if callee := x.Call.StaticCallee(); callee != nil && !x.Call.IsInvoke() {
			if w.allocatingCallee(callee, 0) {
				return true, ""
			}
			return false, "result of " + callee.String() + " (not known to be a new object)"
		}
		return false, "result of a dynamic call"
	}
	return false, fmt.Sprintf("unclassified value %T", v)
}

// allocatingCallee: every returned reference is rooted in objects the callee allocates (or is a
// parameter-independent constant); external constructors on a short allowlist.
func (w *World) allocatingCallee(fn *ssa.Function, depth int) bool {
	if w.allocSummary == nil {
		w.allocSummary = map[*ssa.Function]int{}
	}
	if v, ok := w.allocSummary[fn]; ok {
		return v == 1
	}
	if len(fn.Blocks) == 0 || depth > 4 {
		switch fn.String() {
		case "github.com/getsentry/sentry-go.NewEvent", "(*bytes.Buffer).String", "(*strings.Builder).String", "fmt.Sprintf", "fmt.Sprint", "strings.Split", "strings.Join", "strings.Repeat":
			return true
		}
		return false
	}
	w.allocSummary[fn] = 0
	ok := true
	for _, b := range fn.Blocks {
		for _, ins := range b.Instrs {
			ret, isRet := ins.(*ssa.Return)
			if !isRet {
				continue
			}
			for _, r := range ret.Results {
				switch r.Type().Underlying().(type) {
				case *types.Pointer, *types.Slice, *types.Map, *types.Struct:
				default:
					continue
				}
				seen := map[ssa.Value]bool{}
				if o, _ := w.ownedRootNoParams(r, seen, 0); !o {
					ok = false
				}
			}
		}
	}
	if ok {
		w.allocSummary[fn] = 1
	}
	return ok
}

// ownedRootNoParams: like ownedRoot, but parameters and free variables are not owned (for the
// "allocating callee" summary: the result must not be something the caller handed in).
func (w *World) ownedRootNoParams(v ssa.Value, seen map[ssa.Value]bool, depth int) (bool, string) {
	switch v.(type) {
	case *ssa.Parameter, *ssa.FreeVar:
		return false, "parameter"
	}
	// reuse the structural walk, vetoing parameters wherever they appear
	var veto bool
	var walk func(x ssa.Value, d int)
	visited := map[ssa.Value]bool{}
	walk = func(x ssa.Value, d int) {
		if x == nil || visited[x] || d > 60 {
			return
		}
		visited[x] = true
		switch y := x.(type) {
		case *ssa.Parameter, *ssa.FreeVar:
			veto = true
		case *ssa.FieldAddr:
			walk(y.X, d+1)
		case *ssa.IndexAddr:
			walk(y.X, d+1)
		case *ssa.Slice:
			walk(y.X, d+1)
		case *ssa.UnOp:
			walk(y.X, d+1)
		case *ssa.Phi:
			for _, e := range y.Edges {
				walk(e, d+1)
			}
		case *ssa.ChangeType:
			walk(y.X, d+1)
		case *ssa.Convert:
			walk(y.X, d+1)
		case *ssa.MakeInterface:
			walk(y.X, d+1)
		case *ssa.Extract:
			walk(y.Tuple, d+1)
		case *ssa.TypeAssert:
			walk(y.X, d+1)
		case *ssa.Field:
			walk(y.X, d+1)
		case *ssa.Index:
			walk(y.X, d+1)
		case *ssa.Lookup:
			walk(y.X, d+1)
		case *ssa.Call:
			if _, ok := y.Call.Value.(*ssa.Builtin); ok {
				for _, a := range y.Call.Args {
					walk(a, d+1)
				}
			}
		}
	}
	walk(v, 0)
	if veto {
		return false, "parameter"
	}
	return w.ownedRoot(v, seen, depth, true)
}

// syntacticFrame generates the sframe obligations of fn.
func (w *World) syntacticFrame(fn *ssa.Function, topName string) []*Obligation {
	var out []*Obligation
	n := 0
	add := func(ins ssa.Instruction, what string, ok bool, why string) {
		n++
		o := &Obligation{Name: fmt.Sprintf("%s#sframe.%d", topName, n), Func: topName, Kind: "frame", Props: []string{"C18"},
			Text: "read-only frame (structural rule): " + what, Pos: w.Fset.Position(ins.Pos()).String()}
		q := &Query{Goal: tTrue, Status: "trivial"}
		if !ok {
			q.Goal, q.Status = tFalse, "" // decided structurally: the solver confirms the trivial refutation
			q.Output = "structural ownership rule does not apply: " + why
			o.Text += " -- " + why
		}
		o.Queries = []*Query{q}
		out = append(out, o)
	}
	var blocks []*ssa.BasicBlock
	blocks = append(blocks, fn.Blocks...)
	sort.SliceStable(blocks, func(i, j int) bool { return blocks[i].Index < blocks[j].Index })
	for _, b := range blocks {
		for _, ins := range b.Instrs {
			switch x := ins.(type) {
			case *ssa.Store:
				ok, why := w.ownedRootStrict(x.Addr)
				add(ins, "store target is owned by the call", ok, why)
			case *ssa.MapUpdate:
				ok, why := w.ownedRoot(x.Map, map[ssa.Value]bool{}, 0, false)
				add(ins, "updated map is owned by the call", ok, why)
			case *ssa.Call:
				cc := x.Common()
				if b, isB := cc.Value.(*ssa.Builtin); isB {
					if b.Name() == "delete" || b.Name() == "copy" {
						ok, why := w.ownedRoot(cc.Args[0], map[ssa.Value]bool{}, 0, false)
						add(ins, b.Name()+" target is owned by the call", ok, why)
					}
					if b.Name() == "append" {
						if base := truncatedAppendBase(cc.Args[0]); base != nil {
							ok, why := w.sliceStorageOwned(base)
							add(ins, "append onto a truncated view overwrites only storage owned by the call", ok, why)
						}
					}
					continue
				}
				callee := cc.StaticCallee()
				if callee == nil || cc.IsInvoke() {
					continue
				}
				inMod := callee.Pkg != nil && w.InModule(callee.Pkg.Pkg)
				for ai, a := range cc.Args {
					switch a.Type().Underlying().(type) {
					case *types.Pointer, *types.Map:
					default:
						continue
					}
					writes := false
					if inMod {
						writes = ai < len(callee.Params) && w.mayWriteParam(callee, ai, 0)
					} else if ai == 0 && callee.Signature.Recv() != nil {
						rt := callee.Signature.Recv().Type().String()
						writes = (rt == "*bytes.Buffer" || rt == "*strings.Builder") && callee.Name() != "String" && callee.Name() != "Len" && callee.Name() != "Bytes"
					}
					if !writes {
						continue
					}
					ok, why := w.ownedRoot(a, map[ssa.Value]bool{}, 0, false)
					add(ins, "argument "+fmt.Sprint(ai)+" of "+w.funcName(callee)+" (which may write through it) is owned by the call", ok, why)
				}
			}
		}
	}
	return out
}

// formatDelegation (C09): the Format method of every library error type hands the receiver, the
// fmt.State and the verb unchanged to errbase.FormatError (so that all verbs of all library types
// go through the one engine whose dispatch is under contract). Structural obligations
// <method>#delegates.
func (w *World) formatDelegation() []*FuncResult {
	var out []*FuncResult
	var fns []*ssa.Function
	for fn := range w.AllFuncs {
		if fn.Name() != "Format" || fn.Signature.Recv() == nil || fn.Pkg == nil || !w.InModule(fn.Pkg.Pkg) || len(fn.Blocks) == 0 || fn.Synthetic != "" {
			continue
		}
		p := fn.Pkg.Pkg.Path()
		if strings.Contains(p, "testutils") || strings.Contains(p, "fmttests") {
			continue
		}
		if pos := w.Fset.Position(fn.Pos()); strings.HasSuffix(pos.Filename, "_test.go") {
			continue
		}
		sig := fn.Signature
		if sig.Params().Len() != 2 || sig.Params().At(0).Type().String() != "fmt.State" {
			continue
		}
		rt := sig.Recv().Type()
		if pt, ok := rt.Underlying().(*types.Pointer); ok {
			rt = pt.Elem()
		}
		if !w.isErrorStruct(rt) {
			continue
		}
		fns = append(fns, fn)
	}
	sort.Slice(fns, func(i, j int) bool { return fns[i].String() < fns[j].String() })
	for _, fn := range fns {
		name := w.funcName(fn)
		ok, why := true, ""
		calls := 0
		for _, b := range fn.Blocks {
			for _, ins := range b.Instrs {
				switch x := ins.(type) {
				case *ssa.Store, *ssa.MapUpdate, *ssa.If, *ssa.Go, *ssa.Defer:
					ok, why = false, fmt.Sprintf("unexpected %T in a delegating Format method", ins)
				case *ssa.Call:
					if _, isB := x.Call.Value.(*ssa.Builtin); isB {
						continue
					}
					calls++
					callee := x.Call.StaticCallee()
					if callee == nil || callee.Name() != "FormatError" || callee.Pkg == nil || !(strings.HasSuffix(callee.Pkg.Pkg.Path(), "/errbase") || callee.Pkg.Pkg.Path() == w.ModPath) {
						ok, why = false, "calls something other than errbase.FormatError"
						continue
					}
					a := x.Call.Args
					recvOK := false
					if len(a) == 3 {
						v := a[0]
						if mi, isMI := v.(*ssa.MakeInterface); isMI {
							v = mi.X
						}
						recvOK = v == ssa.Value(fn.Params[0])
						// the Formattable adapter hands over the error it wraps (a field of the receiver)
						if ld, isLoad := v.(*ssa.UnOp); isLoad && !recvOK {
							if fa, isFA := ld.X.(*ssa.FieldAddr); isFA && fa.X == ssa.Value(fn.Params[0]) {
								recvOK = true
							}
						}
					}
					if !recvOK || a[1] != ssa.Value(fn.Params[1]) || a[2] != ssa.Value(fn.Params[2]) {
						ok, why = false, "FormatError is not called with (receiver, state, verb)"
					}
				}
			}
		}
		if ok && calls != 1 {
			ok, why = false, fmt.Sprintf("%d calls instead of exactly one call of errbase.FormatError", calls)
		}
		o := &Obligation{Name: name + "#delegates", Func: name, Kind: "post", Props: []string{"C09", "C06"},
			Text: "Format hands (receiver, state, verb) unchanged to errbase.FormatError (structural)", Pos: w.Fset.Position(fn.Pos()).String()}
		q := &Query{Goal: tTrue, Status: "trivial"}
		if !ok {
			q.Goal, q.Status = tFalse, "" // decided structurally: the solver confirms the trivial refutation
			q.Output = why
			o.Text += " -- " + why
		}
		o.Queries = []*Query{q}
		out = append(out, &FuncResult{Name: name, Fn: fn, Obls: []*Obligation{o}})
	}
	return out
}

// allocRootOf: the local variable an address is rooted in through field / element addressing only.
func allocRootOf(v ssa.Value) *ssa.Alloc {
	for i := 0; i < 12; i++ {
		switch x := v.(type) {
		case *ssa.Alloc:
			return x
		case *ssa.FieldAddr:
			v = x.X
		case *ssa.IndexAddr:
			v = x.X
		default:
			return nil
		}
	}
	return nil
}

// storesInto: the values stored into local variable a by its function and by the closures that
// capture it (through the corresponding free variable).
func storesInto(a *ssa.Alloc) []ssa.Value {
	var out []ssa.Value
	var scan func(fn *ssa.Function, root ssa.Value)
	scan = func(fn *ssa.Function, root ssa.Value) {
		for _, b := range fn.Blocks {
			for _, ins := range b.Instrs {
				switch x := ins.(type) {
				case *ssa.Store:
					r := x.Addr
					for i := 0; i < 12; i++ {
						if fa, ok := r.(*ssa.FieldAddr); ok {
							r = fa.X
							continue
						}
						if ia, ok := r.(*ssa.IndexAddr); ok {
							r = ia.X
							continue
						}
						break
					}
					if r == root {
						out = append(out, x.Val)
					}
				case *ssa.MakeClosure:
					cf, ok := x.Fn.(*ssa.Function)
					if !ok {
						continue
					}
					for bi, bnd := range x.Bindings {
						if bnd == root && bi < len(cf.FreeVars) {
							scan(cf, cf.FreeVars[bi])
						}
					}
				}
			}
		}
	}
	if a.Parent() != nil {
		scan(a.Parent(), a)
	}
	return out
}

// ownedRootStrict: ownedRoot for an element-write address where slices read out of parameter
// objects are NOT taken to be owned (only locally created slices / per-call state are).
func (w *World) ownedRootStrict(addr ssa.Value) (bool, string) {
	v := addr
	for i := 0; i < 20; i++ {
		switch x := v.(type) {
		case *ssa.IndexAddr:
			v = x.X
			continue
		case *ssa.FieldAddr:
			v = x.X
			continue
		case *ssa.UnOp:
			if x.Op == token.MUL {
				// the slice / pointer was loaded from memory: where from?
				base := x.X
				for j := 0; j < 20; j++ {
					if fa, ok := base.(*ssa.FieldAddr); ok {
						base = fa.X
						continue
					}
					if ia, ok := base.(*ssa.IndexAddr); ok {
						base = ia.X
						continue
					}
					break
				}
				if p, ok := base.(*ssa.Parameter); ok {
					pt := p.Type()
					if pp, ok := pt.Underlying().(*types.Pointer); ok {
						pt = pp.Elem()
					}
					if perCallState(pt) {
						return true, ""
					}
					return false, "slice read out of parameter " + p.Name() + " (" + p.Type().String() + "), whose backing array may belong to an error object"
				}
			}
		}
		break
	}
	return w.ownedRoot(addr, map[ssa.Value]bool{}, 0, false)
}

// registryTable (C01 / C11 / C12): "which function is registered under which key" is part of the
// wire contract - the pair lemmas name encoder and decoder functions, the registries decide which
// ones run. The committed table /verif/spec/registry.table is the contract of the init()
// functions; structural obligations registry#<kind>.<key> compare it, in both directions, with the
// Register* calls found in the SSA of the current tree.
func (w *World) registryTable(prop string) []*FuncResult {
	path := filepath.Join(w.VerifDir, "spec", "registry.table")
	cur := map[string]string{}
	for _, rs := range w.registrationSites() {
		key := "?"
		if rs.KeyType != nil {
			key = w.shortType(rs.KeyType)
		} else if rs.KeyConst != "" {
			key = rs.KeyConst
		} else {
			// key computed at run time from a local value: identified by the registered function
			key = "key-of:" + w.funcName(rs.Fn)
		}
		if prev, dup := cur[rs.Kind+" "+key]; dup && prev != w.funcName(rs.Fn) {
			key += "@" + w.funcName(rs.In)
		}
		cur[rs.Kind+" "+key] = w.funcName(rs.Fn)
	}
	// built-in type migrations: RegisterTypeMigration calls with constant names (the renames the
	// library itself declares, e.g. os.PathError -> io/fs.PathError)
	for fn := range w.AllFuncs {
		if fn.Pkg == nil || !w.InModule(fn.Pkg.Pkg) || strings.HasSuffix(fn.Pkg.Pkg.Path(), "/testutils") || strings.Contains(fn.Pkg.Pkg.Path(), "fmttests") {
			continue
		}
		if pos := w.Fset.Position(fn.Pos()); strings.HasSuffix(pos.Filename, "_test.go") {
			continue
		}
		for _, b := range fn.Blocks {
			for _, ins := range b.Instrs {
				call, ok := ins.(*ssa.Call)
				if !ok {
					continue
				}
				callee := call.Call.StaticCallee()
				if callee == nil || callee.Name() != "RegisterTypeMigration" || len(call.Call.Args) != 3 {
					continue
				}
				c0, ok0 := call.Call.Args[0].(*ssa.Const)
				c1, ok1 := call.Call.Args[1].(*ssa.Const)
				if !ok0 || !ok1 || c0.Value == nil || c1.Value == nil {
					continue
				}
				nt := "?"
				if mi, isMI := call.Call.Args[2].(*ssa.MakeInterface); isMI {
					nt = w.shortType(mi.X.Type())
				}
				cur["Migration "+nt] = strings.Trim(c0.Value.ExactString(), "\"") + "/" + strings.Trim(c1.Value.ExactString(), "\"")
			}
		}
	}
	if os.Getenv("VERIF_WRITE_REGISTRY") == "1" {
		var lines []string
		for _, k := range sortedKeys(cur) {
			lines = append(lines, k+" = "+cur[k])
		}
		os.WriteFile(path, []byte("# kind key = registered function (contract of the init functions; regenerate only on purpose: VERIF_WRITE_REGISTRY=1 ./check C01)\n"+strings.Join(lines, "\n")+"\n"), 0o644)
	}
	want := map[string]string{}
	if data, err := os.ReadFile(path); err == nil {
		for _, ln := range strings.Split(string(data), "\n") {
			ln = strings.TrimSpace(ln)
			if ln == "" || strings.HasPrefix(ln, "#") {
				continue
			}
			if i := strings.Index(ln, " = "); i > 0 {
				want[ln[:i]] = ln[i+3:]
			}
		}
	}
	keys := map[string]bool{}
	for k := range cur {
		keys[k] = true
	}
	for k := range want {
		keys[k] = true
	}
	var obls []*Obligation
	for _, k := range sortedKeys(keys) {
		o := &Obligation{Name: "registry#" + strings.ReplaceAll(k, " ", "."), Func: "registry", Kind: "post", Props: []string{prop},
			Text: "the function registered as " + k + " is the one the wire contracts name (" + want[k] + ")"}
		q := &Query{Goal: tTrue, Status: "trivial"}
		if cur[k] != want[k] {
			q.Goal, q.Status = tFalse, "" // decided structurally: the solver confirms the trivial refutation
			q.Output = fmt.Sprintf("registered now: %q, contract table: %q", cur[k], want[k])
			o.Text += " -- " + q.Output
		}
		o.Queries = []*Query{q}
		obls = append(obls, o)
	}
	return []*FuncResult{{Name: "registry", Obls: obls}}
}

// truncatedAppendBase: when the first operand of an append is (on some path) a truncated view
// x[:n] of another slice, the append overwrites elements of x that every other holder of x can
// see. Returns that x, or nil when no truncation is involved (append then only writes beyond the
// length every holder sees).
func truncatedAppendBase(v ssa.Value) ssa.Value {
	seen := map[ssa.Value]bool{}
	var find func(v ssa.Value, d int) ssa.Value
	find = func(v ssa.Value, d int) ssa.Value {
		if v == nil || d > 16 || seen[v] {
			return nil
		}
		seen[v] = true
		switch x := v.(type) {
		case *ssa.Slice:
			if x.High != nil {
				return x.X
			}
			return find(x.X, d+1)
		case *ssa.Phi:
			for _, e := range x.Edges {
				if b := find(e, d+1); b != nil {
					return b
				}
			}
		case *ssa.ChangeType:
			return find(x.X, d+1)
		case *ssa.UnOp:
			if x.Op == token.MUL {
				if a := allocRootOf(x.X); a != nil {
					for _, sv := range storesInto(a) {
						if b := find(sv, d+1); b != nil {
							return b
						}
					}
				}
			}
		case *ssa.Call:
			if b, ok := x.Call.Value.(*ssa.Builtin); ok && b.Name() == "append" {
				return find(x.Call.Args[0], d+1)
			}
		}
		return nil
	}
	return find(v, 0)
}

// sliceStorageOwned: the backing array of slice value v was created by this call (or belongs to
// per-call engine state). Unlike ownedRoot, parameters do not count: a slice read out of (or
// handed in as) a parameter shares its array with the caller's objects.
func (w *World) sliceStorageOwned(v ssa.Value) (bool, string) {
	seen := map[ssa.Value]bool{}
	why := ""
	var walk func(v ssa.Value, d int) bool
	walk = func(v ssa.Value, d int) bool {
		if v == nil || seen[v] {
			return true
		}
		seen[v] = true
		if d > 40 {
			why = "def chain too deep"
			return false
		}
		switch x := v.(type) {
		case *ssa.Parameter:
			pt := x.Type()
			if pp, ok := pt.Underlying().(*types.Pointer); ok {
				pt = pp.Elem()
			}
			if perCallState(pt) {
				return true
			}
			why = "storage reachable from parameter " + x.Name() + " (" + x.Type().String() + ")"
			return false
		case *ssa.FreeVar:
			why = "storage reachable from captured variable " + x.Name()
			return false
		case *ssa.Global:
			why = "storage reachable from package variable " + x.Name()
			return false
		case *ssa.MakeSlice, *ssa.Const:
			return true
		case *ssa.Alloc:
			for _, sv := range storesInto(x) {
				if !walk(sv, d+1) {
					return false
				}
			}
			return true
		case *ssa.FieldAddr:
			return walk(x.X, d+1)
		case *ssa.IndexAddr:
			return walk(x.X, d+1)
		case *ssa.Field:
			return walk(x.X, d+1)
		case *ssa.Index:
			return walk(x.X, d+1)
		case *ssa.Slice:
			return walk(x.X, d+1)
		case *ssa.ChangeType:
			return walk(x.X, d+1)
		case *ssa.Convert:
			return true // string <-> []byte conversions copy
		case *ssa.Extract:
			return walk(x.Tuple, d+1)
		case *ssa.TypeAssert:
			return walk(x.X, d+1)
		case *ssa.MakeInterface:
			return walk(x.X, d+1)
		case *ssa.Lookup:
			return walk(x.X, d+1)
		case *ssa.Next:
			return walk(x.Iter, d+1)
		case *ssa.Range:
			return walk(x.X, d+1)
		case *ssa.UnOp:
			if x.Op == token.MUL {
				return walk(x.X, d+1)
			}
			return true
		case *ssa.Phi:
			for _, e := range x.Edges {
				if !walk(e, d+1) {
					return false
				}
			}
			return true
		case *ssa.Call:
			if b, ok := x.Call.Value.(*ssa.Builtin); ok {
				if b.Name() == "append" {
					return walk(x.Call.Args[0], d+1)
				}
				return true
			}
			if callee := x.Call.StaticCallee(); callee != nil && !x.Call.IsInvoke() && w.allocatingCallee(callee, 0) {
				return true
			}
			why = "storage returned by a call that is not known to allocate it"
			return false
		}
		why = fmt.Sprintf("unclassified value %T", v)
		return false
	}
	ok := walk(v, 0)
	return ok, why
}

// apiForwarding: the top-level package re-exports the sub-packages' functions through one-line
// forwarders. Structural obligation <func>#forwards for every such forwarder: its body is a single
// call of a module function, every parameter is handed over exactly once, in declaration order
// (a parameter may be adjusted by a constant, as in depth+1; additional arguments are constants),
// and the call's results are returned unchanged. The obligation belongs to every property the
// callee's contract belongs to: a forwarder that swaps or drops arguments breaks what the callee
// guarantees to the API user.
func (w *World) apiForwarding(prop string) []*FuncResult {
	var out []*FuncResult
	var fns []*ssa.Function
	for fn := range w.AllFuncs {
		if fn.Pkg == nil || fn.Pkg.Pkg.Path() != w.ModPath || len(fn.Blocks) != 1 || fn.Synthetic != "" || fn.Signature.Recv() != nil || fn.Parent() != nil {
			continue
		}
		if pos := w.Fset.Position(fn.Pos()); !strings.HasSuffix(pos.Filename, "_api.go") {
			continue
		}
		fns = append(fns, fn)
	}
	sort.Slice(fns, func(i, j int) bool { return fns[i].String() < fns[j].String() })
	for _, fn := range fns {
		var call *ssa.Call
		ncalls := 0
		other := ""
		for _, ins := range fn.Blocks[0].Instrs {
			switch x := ins.(type) {
			case *ssa.Call:
				if _, isB := x.Call.Value.(*ssa.Builtin); isB {
					other = "builtin call"
					continue
				}
				ncalls++
				call = x
			case *ssa.BinOp, *ssa.Return, *ssa.Extract, *ssa.DebugRef, *ssa.ChangeType, *ssa.MakeInterface, *ssa.ChangeInterface:
			default:
				other = fmt.Sprintf("%T", ins)
			}
		}
		if ncalls != 1 || other != "" {
			continue // not a one-line forwarder
		}
		callee := call.Call.StaticCallee()
		if callee == nil || callee.Pkg == nil || !w.InModule(callee.Pkg.Pkg) || call.Call.IsInvoke() {
			continue
		}
		ctr := w.Contracts[callee]
		if ctr == nil || !contractMentions(ctr, prop) {
			continue
		}
		name := w.funcName(fn)
		ok, why := true, ""
		next := 0 // index of the next parameter expected
		for _, a := range call.Call.Args {
			v := a
			for {
				switch y := v.(type) {
				case *ssa.ChangeType:
					v = y.X
					continue
				case *ssa.MakeInterface:
					v = y.X
					continue
				case *ssa.ChangeInterface:
					v = y.X
					continue
				}
				break
			}
			if bo, isBO := v.(*ssa.BinOp); isBO {
				if _, isC := bo.Y.(*ssa.Const); isC {
					v = bo.X
				} else if _, isC := bo.X.(*ssa.Const); isC {
					v = bo.Y
				}
			}
			switch y := v.(type) {
			case *ssa.Const:
			case *ssa.Parameter:
				idx := -1
				for i, p := range fn.Params {
					if p == y {
						idx = i
					}
				}
				if idx != next {
					ok, why = false, fmt.Sprintf("parameter %s is handed over out of order (expected %s)", y.Name(), paramNameAt(fn, next))
				}
				next = idx + 1
			default:
				ok, why = false, fmt.Sprintf("argument computed from something other than a parameter or a constant (%T)", v)
			}
		}
		if ok && next != len(fn.Params) {
			ok, why = false, fmt.Sprintf("parameter %s is not handed over", paramNameAt(fn, next))
		}
		o := &Obligation{Name: name + "#forwards", Func: name, Kind: "post", Props: append([]string{}, ctr.Props...),
			Text: "API forwarder hands its parameters, in order, to " + w.funcName(callee) + " (structural)", Pos: w.Fset.Position(fn.Pos()).String()}
		q := &Query{Goal: tTrue, Status: "trivial"}
		if !ok {
			q.Goal, q.Status = tFalse, ""
			q.Output = why
			o.Text += " -- " + why
		}
		o.Queries = []*Query{q}
		out = append(out, &FuncResult{Name: name, Fn: fn, Obls: []*Obligation{o}})
	}
	return out
}

func paramNameAt(fn *ssa.Function, i int) string {
	if i >= 0 && i < len(fn.Params) {
		return fn.Params[i].Name()
	}
	return "<none>"
}

// formatDiscipline: every precondition "the format string is program text" (C03) and every claim
// about what a layer prints (C09) rests on format strings being program text. Structural rule
// (the analogue of vet's "non-constant format string"): at every call in the module's non-test
// code whose callee has a string parameter named "format", the argument is a constant or the
// caller's own parameter named "format". Obligations <func>#formatarg.N.
func (w *World) formatDiscipline() []*FuncResult {
	var out []*FuncResult
	var fns []*ssa.Function
	for fn := range w.AllFuncs {
		pkg := fn.Pkg
		if pkg == nil && fn.Parent() != nil {
			pkg = fn.Parent().Pkg
		}
		if pkg == nil || !w.InModule(pkg.Pkg) || w.isGenerated(fn) || len(fn.Blocks) == 0 || fn.Synthetic != "" {
			continue
		}
		p := pkg.Pkg.Path()
		if strings.Contains(p, "testutils") || strings.Contains(p, "fmttests") {
			continue
		}
		if pos := w.Fset.Position(fn.Pos()); strings.HasSuffix(pos.Filename, "_test.go") || pos.Filename == "" {
			continue
		}
		fns = append(fns, fn)
	}
	sort.Slice(fns, func(i, j int) bool { return fns[i].String() < fns[j].String() })
	for _, fn := range fns {
		name := w.funcName(fn)
		var obls []*Obligation
		n := 0
		var blocks []*ssa.BasicBlock
		blocks = append(blocks, fn.Blocks...)
		sort.SliceStable(blocks, func(i, j int) bool { return blocks[i].Index < blocks[j].Index })
		for _, b := range blocks {
			for _, ins := range b.Instrs {
				ci, ok := ins.(ssa.CallInstruction)
				if !ok {
					continue
				}
				cc := ci.Common()
				sig := cc.Signature()
				if sig == nil {
					continue
				}
				off := 0
				if cc.IsInvoke() {
					off = 0 // Args exclude the receiver for invoke-mode calls
				} else if sig.Recv() != nil {
					off = 1
				}
				for pi := 0; pi < sig.Params().Len(); pi++ {
					prm := sig.Params().At(pi)
					if prm.Name() != "format" || !isString(prm.Type()) {
						continue
					}
					ai := pi + off
					if ai >= len(cc.Args) {
						continue
					}
					v := cc.Args[ai]
					for {
						if ct, isCT := v.(*ssa.ChangeType); isCT {
							v = ct.X
							continue
						}
						break
					}
					ok2, why := false, ""
					switch y := v.(type) {
					case *ssa.Const:
						ok2 = true
					case *ssa.Parameter:
						ok2 = y.Name() == "format"
						if !ok2 {
							why = "parameter " + y.Name() + " (not a format parameter) is used as a format string"
						}
					case *ssa.Extract:
						// redact.MakeFormat rebuilds the caller's own "%[flags][width][.prec]verb" directive
						if c, isCall := y.Tuple.(*ssa.Call); isCall {
							if sc := c.Call.StaticCallee(); sc != nil && sc.Name() == "MakeFormat" && sc.Pkg != nil && strings.HasSuffix(sc.Pkg.Pkg.Path(), "cockroachdb/redact") {
								ok2 = true
							}
						}
						if !ok2 {
							why = "a computed value is used as a format string"
						}
					default:
						why = fmt.Sprintf("a computed value (%T) is used as a format string", v)
					}
					n++
					callee := "a function value"
					if sc := cc.StaticCallee(); sc != nil {
						callee = w.funcName(sc)
					} else if cc.IsInvoke() {
						callee = w.shortType(cc.Value.Type()) + "." + cc.Method.Name()
					}
					o := &Obligation{Name: fmt.Sprintf("%s#formatarg.%d", name, n), Func: name, Kind: "post", Props: []string{"C03", "C09", "C07", "C10"},
						Text: "the format string handed to " + callee + " is program text: a constant or the caller's own format parameter (structural)", Pos: w.Fset.Position(ins.Pos()).String()}
					q := &Query{Goal: tTrue, Status: "trivial"}
					if !ok2 {
						q.Goal, q.Status = tFalse, ""
						q.Output = why
						o.Text += " -- " + why
					}
					o.Queries = []*Query{q}
					obls = append(obls, o)
				}
			}
		}
		if len(obls) > 0 {
			out = append(out, &FuncResult{Name: name, Fn: fn, Obls: obls})
		}
	}
	return out
}

// globalStateCalls (C18): a read-only observer may not hand the address of package-level state
// to code outside the module that can write through it (atomic.Value.Store, sync.Map.Store,
// sync.Pool.Put, ...): such a call is a write to state shared by all goroutines even when it is
// free of data races. Structural obligations <func>#gframe.N for every call of an external
// function whose receiver / pointer argument is rooted in a package variable; only a short list
// of read-only or synchronisation-only methods passes.
func (w *World) globalStateCalls() []*FuncResult {
	readOnly := map[string]bool{"Load": true, "RLock": true, "RUnlock": true, "Lock": true, "Unlock": true, "Len": true, "String": true, "Range": true, "Do": true}
	var out []*FuncResult
	for _, fn := range w.frameSweepFuncs() {
		name := w.funcName(fn)
		var obls []*Obligation
		n := 0
		var blocks []*ssa.BasicBlock
		blocks = append(blocks, fn.Blocks...)
		sort.SliceStable(blocks, func(i, j int) bool { return blocks[i].Index < blocks[j].Index })
		for _, b := range blocks {
			for _, ins := range b.Instrs {
				ci, ok := ins.(ssa.CallInstruction)
				if !ok {
					continue
				}
				cc := ci.Common()
				callee := cc.StaticCallee()
				if callee == nil || cc.IsInvoke() || (callee.Pkg != nil && w.InModule(callee.Pkg.Pkg)) {
					continue
				}
				for _, a := range cc.Args {
					if _, isPtr := a.Type().Underlying().(*types.Pointer); !isPtr {
						continue
					}
					v := a
					var g *ssa.Global
					for i := 0; i < 10 && g == nil; i++ {
						switch y := v.(type) {
						case *ssa.Global:
							g = y
						case *ssa.FieldAddr:
							v = y.X
						case *ssa.IndexAddr:
							v = y.X
						default:
							i = 10
						}
					}
					if g == nil || g.Pkg == nil || !w.InModule(g.Pkg.Pkg) {
						continue
					}
					n++
					ok2 := readOnly[callee.Name()]
					o := &Obligation{Name: fmt.Sprintf("%s#gframe.%d", name, n), Func: name, Kind: "frame", Props: []string{"C18"},
						Text: "read-only frame (structural rule): " + callee.String() + " is handed the address of package variable " + g.Name() + " and does not write through it", Pos: w.Fset.Position(ins.Pos()).String()}
					q := &Query{Goal: tTrue, Status: "trivial"}
					if !ok2 {
						q.Goal, q.Status = tFalse, ""
						q.Output = "external callee may write package-level state"
						o.Text += " -- not on the list of read-only / synchronisation-only methods"
					}
					o.Queries = []*Query{q}
					obls = append(obls, o)
				}
			}
		}
		if len(obls) > 0 {
			out = append(out, &FuncResult{Name: name, Fn: fn, Obls: obls})
		}
	}
	return out
}

// modeIndependence (C06, congruence): the plain and the redactable rendering of an error are the
// same walk over the same layers; they may differ only where entries are copied out (escaping and
// enclosing) and in the final hand-over. Structural obligations <func>#modeindep: the field
// state.redactableOutput is read only by the functions whose contracts speak about the two modes
// (collectEntry, printEntry, formatSingleLineOutput, finishDisplay); formatErrorInternal sees the
// mode as a parameter. Any other reader makes the collection phase mode-dependent.
func (w *World) modeIndependence() []*FuncResult {
	allowed := map[string]bool{"collectEntry": true, "printEntry": true, "formatSingleLineOutput": true, "finishDisplay": true, "formatErrorInternal": true}
	var out []*FuncResult
	var fns []*ssa.Function
	for fn := range w.AllFuncs {
		pkg := fn.Pkg
		if pkg == nil && fn.Parent() != nil {
			pkg = fn.Parent().Pkg
		}
		if pkg == nil || !strings.HasSuffix(pkg.Pkg.Path(), "/errbase") || !w.InModule(pkg.Pkg) || len(fn.Blocks) == 0 || fn.Synthetic != "" {
			continue
		}
		if pos := w.Fset.Position(fn.Pos()); strings.HasSuffix(pos.Filename, "_test.go") || pos.Filename == "" {
			continue
		}
		fns = append(fns, fn)
	}
	sort.Slice(fns, func(i, j int) bool { return fns[i].String() < fns[j].String() })
	for _, fn := range fns {
		reads := false
		for _, b := range fn.Blocks {
			for _, ins := range b.Instrs {
				var st *types.Struct
				idx := -1
				switch x := ins.(type) {
				case *ssa.FieldAddr:
					if pt, ok := x.X.Type().Underlying().(*types.Pointer); ok {
						st, _ = pt.Elem().Underlying().(*types.Struct)
						idx = x.Field
					}
				case *ssa.Field:
					st, _ = x.X.Type().Underlying().(*types.Struct)
					idx = x.Field
				}
				if st != nil && idx >= 0 && idx < st.NumFields() && st.Field(idx).Name() == "redactableOutput" {
					// only loads count (the composite literal in formatErrorInternal stores it)
					if fa, isFA := ins.(*ssa.FieldAddr); isFA {
						for _, ref := range *fa.Referrers() {
							if u, isLoad := ref.(*ssa.UnOp); isLoad && u.Op == token.MUL {
								reads = true
							}
						}
					} else {
						reads = true
					}
				}
			}
		}
		if !reads {
			continue
		}
		root := fn
		for root.Parent() != nil {
			root = root.Parent()
		}
		name := w.funcName(fn)
		o := &Obligation{Name: name + "#modeindep", Func: name, Kind: "post", Props: []string{"C06"},
			Text: "the rendering mode (state.redactableOutput) is consulted only where entries are copied out or handed over (structural)", Pos: w.Fset.Position(fn.Pos()).String()}
		q := &Query{Goal: tTrue, Status: "trivial"}
		if !allowed[root.Name()] {
			q.Goal, q.Status = tFalse, ""
			q.Output = "this function makes the collection phase depend on the rendering mode"
			o.Text += " -- " + q.Output
		}
		o.Queries = []*Query{q}
		out = append(out, &FuncResult{Name: name, Fn: fn, Obls: []*Obligation{o}})
	}
	return out
}

// printerDelegation (C06 / C09 / C03): the Print / Printf methods of the engine's two printers do
// nothing but normalise their operands (enhanceArgs) and hand format and operands to the
// formatting package that owns escaping (redact.Fprint[f] for the safe printer, fmt.Fprint[f] for
// the plain one), writing into the state. Structural obligations <method>#delegates: straight-line
// body, one enhanceArgs call, one call of the expected Fprint / Fprintf, nothing else - so that no
// operand reaches the buffers by another route (unescaped, or formatted differently per mode).
func (w *World) printerDelegation() []*FuncResult {
	var out []*FuncResult
	var fns []*ssa.Function
	for fn := range w.AllFuncs {
		if fn.Pkg == nil || !strings.HasSuffix(fn.Pkg.Pkg.Path(), "/errbase") || !w.InModule(fn.Pkg.Pkg) || fn.Signature.Recv() == nil || len(fn.Blocks) == 0 || fn.Synthetic != "" {
			continue
		}
		if fn.Name() != "Print" && fn.Name() != "Printf" {
			continue
		}
		rt := fn.Signature.Recv().Type().String()
		if !strings.HasSuffix(rt, "errbase.printer") && !strings.HasSuffix(rt, "errbase.safePrinter") {
			continue
		}
		fns = append(fns, fn)
	}
	sort.Slice(fns, func(i, j int) bool { return fns[i].String() < fns[j].String() })
	for _, fn := range fns {
		name := w.funcName(fn)
		safe := strings.HasSuffix(fn.Signature.Recv().Type().String(), "safePrinter")
		wantPkg := "fmt"
		if safe {
			wantPkg = "github.com/cockroachdb/redact"
		}
		wantFn := "F" + strings.ToLower(fn.Name()[:1]) + fn.Name()[1:] // Fprint / Fprintf
		ok, why := true, ""
		nEnh, nOut := 0, 0
		if len(fn.Blocks) != 1 {
			ok, why = false, "the body branches"
		}
		for _, b := range fn.Blocks {
			for _, ins := range b.Instrs {
				switch x := ins.(type) {
				case *ssa.Call:
					callee := x.Call.StaticCallee()
					switch {
					case callee != nil && callee.Name() == "enhanceArgs" && callee.Signature.Recv() != nil:
						nEnh++
					case callee != nil && callee.Pkg != nil && callee.Pkg.Pkg.Path() == wantPkg && callee.Name() == wantFn:
						nOut++
					default:
						ok, why = false, "calls something other than enhanceArgs and "+wantPkg+"."+wantFn
					}
				case *ssa.Store, *ssa.MapUpdate, *ssa.If, *ssa.Go, *ssa.Defer:
					ok, why = false, fmt.Sprintf("unexpected %T in a delegating printer method", ins)
				}
			}
		}
		if ok && (nEnh != 1 || nOut != 1) {
			ok, why = false, fmt.Sprintf("%d enhanceArgs call(s) and %d %s call(s) instead of one each", nEnh, nOut, wantFn)
		}
		o := &Obligation{Name: name + "#delegates", Func: name, Kind: "post", Props: []string{"C06", "C09", "C03"},
			Text: "the printer method normalises its operands and hands them to " + wantPkg + "." + wantFn + ", nothing else (structural)", Pos: w.Fset.Position(fn.Pos()).String()}
		q := &Query{Goal: tTrue, Status: "trivial"}
		if !ok {
			q.Goal, q.Status = tFalse, ""
			q.Output = why
			o.Text += " -- " + why
		}
		o.Queries = []*Query{q}
		out = append(out, &FuncResult{Name: name, Fn: fn, Obls: []*Obligation{o}})
	}
	return out
}
