package main

import (
	"flag"
	"fmt"
	"os"
	"path/filepath"
	"runtime"
	"sort"
	"strings"
	"sync"
	"time"
)

func envOr(k, d string) string {
	if v := os.Getenv(k); v != "" {
		return v
	}
	return d
}

type RunCfg struct {
	Repo    string
	Verif   string
	Tier    string
	Solver  *SolverCfg
	Rounds  int
	Verbose bool
	DumpDir string
}

func main() {
	if len(os.Args) < 2 {
		fmt.Fprintln(os.Stderr, "usage: govc check|func|lemma|list ...")
		os.Exit(2)
	}
	cmd := os.Args[1]
	fs := flag.NewFlagSet(cmd, flag.ExitOnError)
	repo := fs.String("repo", envOr("VERIF_REPO", "/repo"), "repository under verification")
	verif := fs.String("verif", envOr("VERIF_DIR", "/verif"), "verification directory")
	tier := fs.String("tier", envOr("VERIF_TIER", "quick"), "quick|thorough")
	verbose := fs.Bool("v", false, "verbose")
	dump := fs.String("dump", "", "directory to dump SMT files")
	prop := fs.String("prop", "", "property id")
	replay := fs.String("replay", "", "replay file")
	fs.Parse(os.Args[2:])
	cfg := &RunCfg{Repo: *repo, Verif: *verif, Tier: *tier, Verbose: *verbose, DumpDir: *dump, Rounds: 3}
	tmp, err := os.MkdirTemp("", "govc-")
	if err != nil {
		fmt.Fprintln(os.Stderr, err)
		os.Exit(2)
	}
	defer os.RemoveAll(tmp)
	cfg.Solver = &SolverCfg{Dir: tmp, FirstMs: 3000, SecondMs: 10000, Workers: runtime.NumCPU()}
	if cfg.Tier == "thorough" {
		cfg.Solver.FirstMs = 20000
		cfg.Solver.SecondMs = 60000
	}
	t0 := time.Now()
	w, err := LoadWorld(cfg.Repo, cfg.Verif)
	if err != nil {
		fmt.Fprintln(os.Stderr, "load:", err)
		os.RemoveAll(tmp)
		os.Exit(2)
	}
	if err := w.LoadSpecs(); err != nil {
		fmt.Fprintln(os.Stderr, "specs:", err)
		os.RemoveAll(tmp)
		os.Exit(2)
	}
	if cfg.Verbose {
		fmt.Fprintf(os.Stderr, "loaded in %v; %d contracts, %d lemmas, %d spec funcs\n", time.Since(t0), len(w.Contracts), len(w.Lemmas), len(w.SpecFuncs))
	}
	code := 0
	switch cmd {
	case "func":
		code = cmdFunc(w, cfg, fs.Args())
	case "lemma":
		code = cmdLemma(w, cfg, fs.Args())
	case "check":
		code = cmdCheck(w, cfg, *prop, *replay, t0)
	case "list":
		for fn, c := range w.Contracts {
			fmt.Println(w.funcName(fn), c.Props)
		}
	default:
		fmt.Fprintln(os.Stderr, "unknown command", cmd)
		code = 2
	}
	for _, wn := range w.Warnings {
		if cfg.Verbose {
			fmt.Fprintln(os.Stderr, "warning:", wn)
		}
	}
	os.RemoveAll(tmp)
	os.Exit(code)
}

// solveAll discharges all queries of the given results in parallel.
func solveAll(w *World, cfg *RunCfg, results []*FuncResult) {
	type job struct {
		ex  *Ex
		o   *Obligation
		q   *Query
		idx int
	}
	var jobs []job
	ex := NewEx(w) // translation helper for instantiation (stateless apart from counters)
	for _, r := range results {
		for _, o := range r.Obls {
			for i, q := range o.Queries {
				if q.Status == "trivial" {
					continue
				}
				jobs = append(jobs, job{ex, o, q, i})
			}
		}
	}
	// SMT text generation is not thread-safe (shared World maps): do it sequentially
	for _, j := range jobs {
		func() {
			defer func() {
				if r := recover(); r != nil {
					j.q.Status = "error"
					j.q.Output = fmt.Sprint("query construction failed: ", r)
				}
			}()
			j.q.SMT = ex.BuildSMT(j.q, cfg.Rounds)
		}()
		if len(j.q.SMT) > 600000 {
			j.q.Status = "error"
			j.q.Output = fmt.Sprintf("VC too large (%d bytes)", len(j.q.SMT))
		}
		if cfg.DumpDir != "" {
			os.MkdirAll(cfg.DumpDir, 0o755)
			os.WriteFile(filepath.Join(cfg.DumpDir, mangle(j.o.Name)+fmt.Sprintf(".%d.smt2", j.idx)), []byte(j.q.SMT), 0o644)
		}
	}
	var wg sync.WaitGroup
	sem := make(chan struct{}, cfg.Solver.Workers)
	for _, j := range jobs {
		if j.q.Status == "error" {
			continue
		}
		wg.Add(1)
		sem <- struct{}{}
		go func(j job) {
			defer wg.Done()
			defer func() { <-sem }()
			var r solverResult
			if j.o.ExpectFail {
				r = SolveCanary(cfg.Solver, j.q.SMT)
			} else {
				r = Solve(cfg.Solver, j.q.SMT, true)
			}
			j.q.Status = r.status
			j.q.Solver = r.solver
			j.q.Ms = r.ms
			j.q.Output = r.output
		}(j)
	}
	wg.Wait()
	// second chance for undecided queries: the same goal from the path facts alone (no axioms, no
	// unfoldings - fewer assumptions, so a refutation there is a refutation of the full query)
	{
		var again []job
		for _, j := range jobs {
			if j.o.ExpectFail || j.q.Status == "unsat" || j.q.Status == "sat" || j.q.Status == "error" || j.q.Status == "trivial" {
				continue
			}
			func() {
				defer func() { recover() }()
				ex.Lite = true
				j.q.LiteSMT = ex.BuildSMT(j.q, cfg.Rounds)
				ex.Lite = false
			}()
			ex.Lite = false
			if j.q.LiteSMT != "" && j.q.LiteSMT != j.q.SMT {
				again = append(again, j)
			}
		}
		var wg2 sync.WaitGroup
		for _, j := range again {
			wg2.Add(1)
			sem <- struct{}{}
			go func(j job) {
				defer wg2.Done()
				defer func() { <-sem }()
				if lr := SolveLite(cfg.Solver, j.q.LiteSMT); lr.status == "unsat" {
					j.q.Status = lr.status
					j.q.Solver = lr.solver
					j.q.Ms += lr.ms
					j.q.Output = lr.output
				}
			}(j)
		}
		wg2.Wait()
	}
	for _, r := range results {
		for _, o := range r.Obls {
			o.Status = "discharged"
			if o.ExpectFail && o.Pair && len(o.Queries) == 2 {
				ref := func(q *Query) bool { return q.Status == "unsat" || q.Status == "trivial" }
				if ref(o.Queries[1]) && !ref(o.Queries[0]) {
					o.Status = "vacuous"
				}
				continue
			}
			if o.ExpectFail {
				// canary: vacuous only if every sampled query is refuted
				all := len(o.Queries) > 0
				for _, q := range o.Queries {
					if !(q.Status == "unsat" || q.Status == "trivial") {
						all = false
					}
				}
				if all {
					o.Status = "vacuous"
				}
				continue
			}
			for _, q := range o.Queries {
				switch q.Status {
				case "unsat", "trivial":
				case "sat":
					o.Status = "failed"
				default:
					if o.Status != "failed" {
						o.Status = "undecided"
					}
				}
			}
		}
	}
}

func printResults(w *World, cfg *RunCfg, results []*FuncResult) int {
	bad := 0
	for _, r := range results {
		if r.Unsupported != "" {
			fmt.Printf("%s: OUT OF SUBSET: %s\n", r.Name, r.Unsupported)
		}
		for _, o := range r.Obls {
			var ms int64
			solvers := map[string]bool{}
			for _, q := range o.Queries {
				ms += q.Ms
				if q.Solver != "" {
					solvers[q.Solver] = true
				}
			}
			fmt.Printf("  %-11s %s  [%d path(s), %dms, %s] %s\n", o.Status, o.Name, len(o.Queries), ms, strings.Join(sortedKeys(solvers), ","), o.Text)
			if o.Status != "discharged" && !(o.ExpectFail && o.Status != "vacuous") {
				bad++
				if cfg.Verbose {
					for _, q := range o.Queries {
						if q.Status != "unsat" && q.Status != "trivial" {
							fmt.Printf("      path %v -> %s\n%s\n", q.Trace, q.Status, indent(trunc(q.Output, 1500), "      "))
							break
						}
					}
				}
			}
		}
		for _, n := range r.Notes {
			if cfg.Verbose {
				fmt.Printf("  note: %s\n", n)
			}
		}
	}
	return bad
}

func trunc(s string, n int) string {
	if len(s) > n {
		return s[:n] + "..."
	}
	return s
}
func indent(s, p string) string {
	return p + strings.ReplaceAll(strings.TrimRight(s, "\n"), "\n", "\n"+p)
}

func cmdFunc(w *World, cfg *RunCfg, names []string) int {
	var results []*FuncResult
	for _, n := range names {
		fn, err := w.ResolveCallee(n, "")
		if err != nil {
			fmt.Fprintln(os.Stderr, err)
			return 2
		}
		results = append(results, w.VerifyFunction(fn, VerifyOpts{Safety: true, Vacuity: true}))
	}
	solveAll(w, cfg, results)
	if printResults(w, cfg, results) > 0 {
		return 1
	}
	return 0
}

func cmdLemma(w *World, cfg *RunCfg, names []string) int {
	var results []*FuncResult
	for _, l := range w.Lemmas {
		for _, n := range names {
			if l.Name == n || n == "all" {
				results = append(results, w.RunLemma(l, VerifyOpts{Vacuity: true}))
			}
		}
	}
	solveAll(w, cfg, results)
	if printResults(w, cfg, results) > 0 {
		return 1
	}
	return 0
}

var _ = sort.Strings
