package main

// Replay template for the formatting-engine contracts (C06 / C09): executable oracles taken from
// the property statements - (C09) every verb / flag / width / precision variant of %v %s %q %x %X
// on a library error prints what fmt prints for its Error() string, other verbs give fmt's
// %!verb(type) notation; (C06) redactable renderings of errors built from hostile strings have
// balanced, non-nested redaction markers on every line, and unsupported verbs are refused.

import "strings"

func formatReplay(w *World, o *Obligation, q *Query, _ map[string]string) (string, string) {
	// frame obligations have their own replay vehicle (race detector / purity)
	if strings.Contains(o.Name, "#frame.") || strings.Contains(o.Name, "#sframe.") {
		return "", ""
	}
	src := `package errors_test

import (
	"context"
	stderrors "errors"
	"fmt"
	"strings"
	"testing"

	"github.com/cockroachdb/errors"
	"github.com/cockroachdb/redact"
)

type verifHostileDetails struct{ msg, d string }

func (e *verifHostileDetails) Error() string         { return e.msg }
func (e *verifHostileDetails) SafeDetails() []string { return []string{e.d, "second " + e.d} }

func verifBalanced(s string) string {
	for ln, line := range strings.Split(s, "\n") {
		depth := 0
		for _, r := range line {
			switch r {
			case '‹':
				depth++
				if depth > 1 {
					return fmt.Sprintf("nested marker on line %d", ln)
				}
			case '›':
				depth--
				if depth < 0 {
					return fmt.Sprintf("closing marker without opener on line %d", ln)
				}
			}
		}
		if depth != 0 {
			return fmt.Sprintf("unbalanced markers on line %d", ln)
		}
	}
	return ""
}

// Replay of obligation ` + o.Name + `
func TestVerifReplay(t *testing.T) {
	bad := 0
	// C09: verbs, flags, width, precision
	base := []error{
		errors.New("hello world"),
		errors.Wrap(errors.New("inner"), "outer"),
		errors.WithHint(errors.Newf("n=%d", 3), "hint"),
		errors.WithMessage(stderrors.Join(fmt.Errorf("boom")), "lib over a one-branch foreign join"),
		errors.Wrap(stderrors.Join(fmt.Errorf("a"), fmt.Errorf("b: %w", fmt.Errorf("c"))), "lib over a foreign join"),
		errors.WithStack(fmt.Errorf("multi %w and %w", fmt.Errorf("x"), errors.New("y"))),
	}
	for _, e := range base {
		for _, verb := range []string{"v", "s", "q", "x", "X"} {
			for _, flags := range []string{"", "-", " ", "0", "#"} {
				if flags == "#" && verb == "v" {
					continue // %#v is a Go-syntax dump
				}
				for _, wp := range []string{"", "5", "30", ".0", ".3", "30.3", ".40"} {
					f := "%" + flags + wp + verb
					got := fmt.Sprintf(f, e)
					want := fmt.Sprintf(f, e.Error())
					if got != want {
						t.Errorf("format %q: got %q, fmt prints %q for the Error() string", f, got, want)
						bad++
					}
				}
			}
		}
		if got, want := fmt.Sprintf("%d", e), "%!d("+fmt.Sprintf("%T", e)+")"; got != want {
			t.Errorf("%%d: got %q want %q", got, want)
			bad++
		}
	}
	// C06: hostile strings through the redactable renderings
	hostile := []string{"a › b", "a ‹ b", "‹x›", "›‹", "line1\nline2 ‹", "x\n›y", "plain", "", "tab\t‹\n\n›"}
	for _, h := range hostile {
		errs := []error{
			errors.New(h),
			errors.Newf("%s", h),
			errors.Wrapf(errors.New(h), "w %s", h),
			fmt.Errorf("std %s: %w", h, errors.New(h)),
			errors.WithDetail(errors.WithHint(errors.New("m"), h), h),
			errors.Join(errors.New(h), fmt.Errorf("%s", h)),
			// an unknown leaf type whose safe details carry the hostile string, seen after a hop
			errors.DecodeError(context.Background(), errors.EncodeError(context.Background(), &verifHostileDetails{"m " + h, h})),
			errors.DecodeError(context.Background(), errors.EncodeError(context.Background(), errors.Wrap(&verifHostileDetails{"m", h}, h))),
		}
		for _, e := range errs {
			for _, verb := range []string{"%v", "%s", "%+v"} {
				r := string(redact.Sprintf(verb, e))
				if why := verifBalanced(r); why != "" {
					t.Errorf("redactable %s of an error built from %q: %s: %q", verb, h, why, r)
					bad++
				}
			}
			for _, verb := range []string{"%q", "%x", "%X"} {
				r := string(redact.Sprintf(verb, e))
				if why := verifBalanced(r); why != "" || !strings.Contains(r, "%!") {
					t.Errorf("redactable %s must be refused (%%!verb notation) and stay well-formed: %q %s", verb, r, why)
					bad++
				}
			}
		}
	}
	if bad > 0 {
		t.Fatalf("REPLAY-CONFIRMED: %d deviation(s) from the formatting behaviour the property states", bad)
	}
}
`
	return ".", src
}

func init() {
	registerReplayFirst(`^\(\*errbase\.state\)\.(finishDisplay|printEntry|formatEntries|formatSingleLineOutput|formatRecursive|collectEntry|elideShortChildren|formatSimple)#|#redactable\.|^errbase\.(formatErrorInternal|FormatError|FormatRedactableError)#`, formatReplay)
}
