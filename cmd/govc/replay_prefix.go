package main

// Replay template for extractPrefix (C01/C04): the corner found by analysing the undischarged
// obligation - a foreign wrapper whose text is exactly ": " + cause text - sent through an
// unknowing hop.

import "strings"

func prefixReplay(w *World, o *Obligation, q *Query, _ map[string]string) (string, string) {
	if !strings.HasPrefix(o.Name, "errbase.extractPrefix#post") {
		return "", ""
	}
	src := `package errbase

import (
	"context"
	"errors"
	"testing"
)

type verifWrap struct {
	cause error
	text  string
}

func (w *verifWrap) Error() string { return w.text }
func (w *verifWrap) Unwrap() error { return w.cause }

// Replay of obligation ` + o.Name + `
func TestVerifReplay(t *testing.T) {
	leaf := errors.New("boom")
	for _, text := range []string{": boom", "p: boom", "while (boom) flushing", "boom"} {
		e := &verifWrap{cause: leaf, text: text}
		d := DecodeError(context.Background(), EncodeError(context.Background(), e))
		if d.Error() != e.Error() {
			t.Fatalf("REPLAY-CONFIRMED: text of an unregistered wrapper changed across one hop: %q -> %q", e.Error(), d.Error())
		}
	}
}
`
	return "errbase", src
}

func init() {
	registerReplayFirst(`^errbase\.extractPrefix#post`, prefixReplay)
}
