package main

// Calls that take a closure ("callback callee: invariant P" in the caller's contract).
//
// Go gives the callee no access to the caller's captured variables except by calling the closure,
// so the callee behaves, as far as those variables are concerned, like `for *: closure(x*)`. The
// call is therefore treated like a loop with invariant P over the captured variables:
//   entry:     P holds before the call (with the ghost call counter $ncalls == 0)
//   preserve:  from any state satisfying P, one call closure(x) for arbitrary arguments x (the
//              k-th call's first argument is named $call(k)) re-establishes P with $ncalls+1
//   after:     the captured variables the closure writes are havoced, P is assumed; the callee's
//              own contract (if any) is applied as usual (it may constrain $ncalls / $call)
// Assumed: the callee passes non-nil interface arguments to the callback.

import (
	"fmt"
	"go/types"

	"golang.org/x/tools/go/ssa"
)

func (ex *Ex) callbackCall(fr *Frame, st *State, ins ssa.Instruction, callee *ssa.Function, ctr *Contract, args []Val, spec *LoopSpec, k func(*State, Val)) bool {
	cbi := -1
	for i, a := range args {
		if a.Fn != nil {
			cbi = i
		}
	}
	if cbi < 0 {
		return false
	}
	clo := args[cbi].Fn
	ord := 0
	if ins != nil {
		ord = fr.ordinalOf("call", ins)
	}
	sym := "g$call$" + mangle(ex.W.funcName(fr.Fn)) + "$" + callee.Name()
	var argSort *Sort = SIface
	if len(clo.Fn.Params) > 0 {
		argSort = ex.W.SortOf(clo.Fn.Params[0].Type())
	}
	setGhost := func(s *State, n *T) {
		s.ghost["$ncalls"] = SV{T: n, Ty: tInt}
		s.ghost["$callsym"] = SV{T: Var(sym, argSort), Ty: tInt}
	}
	evalInvs := func(s *State) ([]*T, []*Clause) {
		var ts []*T
		var cs []*Clause
		for _, inv := range spec.Invs {
			if !ex.activeProps(inv.Props) {
				continue
			}
			env := ex.newEnv(fr, s)
			t, err := ex.trBool(env, inv.E)
			if err != nil {
				unsupp("callback invariant of %s: %v", fr.Name, err)
			}
			ts = append(ts, t)
			cs = append(cs, inv)
		}
		return ts, cs
	}
	havoc := func(s *State) {
		for bi, bv := range clo.Bindings {
			if bi < len(clo.Fn.FreeVars) && freeVarReadOnly(clo.Fn.FreeVars[bi]) {
				continue
			}
			if bv.Ptr != nil && bv.Ptr.Cell > 0 {
				if cur, ok := s.cells[bv.Ptr.Cell]; ok {
					s.cells[bv.Ptr.Cell] = ex.FreshVar("cell", cur.S)
				}
			}
		}
	}
	// entry
	setGhost(st, IntLit(0))
	invs, cls := evalInvs(st)
	for i, t := range invs {
		name := fmt.Sprintf("%s#callback.%d.entry.%d", ex.topPrefix(fr), ord, cls[i].Ord)
		if !ex.owesInvariant(fr, cls[i]) {
			st.Assume(t)
			continue
		}
		ex.oblige(fr, st, name, "loopentry", ex.clauseProps(fr, cls[i]), "callback invariant holds before the call of "+callee.Name()+": "+cls[i].Text, t, posOf(ins))
	}
	// preserve: one arbitrary call of the closure
	{
		s2 := st.Clone()
		havoc(s2)
		n := ex.FreshVar("ncalls", SInt)
		s2.Assume(Ge(n, IntLit(0)))
		setGhost(s2, n)
		pinvs, _ := evalInvs(s2)
		for _, t := range pinvs {
			s2.Assume(t)
		}
		var cargs []Val
		for i, p := range clo.Fn.Params {
			v := ex.FreshVar("cb$"+p.Name(), ex.W.SortOf(p.Type()))
			if _, isI := p.Type().Underlying().(*types.Interface); isI {
				s2.Assume(Not(IfaceIsNil(v)))
				if f := ex.ifaceTypeFact(v, p.Type()); f != nil {
					s2.Assume(f)
				}
				s2.Assume(App("alloc0", SBool, ValOf(v)))
			}
			if i == 0 {
				s2.Assume(Eq(App(sym, argSort, n), v))
			}
			cargs = append(cargs, Val{T: v})
		}
		ex.note("callback: the callee " + callee.Name() + " passes non-nil interface arguments to the closure")
		ex.callFunction(fr, s2, ins, clo.Fn, clo.Bindings, cargs, false, func(s3 *State, _ Val) {
			setGhost(s3, Add(n, IntLit(1)))
			qinvs, qcls := evalInvs(s3)
			for i, t := range qinvs {
				name := fmt.Sprintf("%s#callback.%d.preserve.%d", ex.topPrefix(fr), ord, qcls[i].Ord)
				if !ex.owesInvariant(fr, qcls[i]) {
					continue
				}
				ex.oblige(fr, s3, name, "looppreserve", ex.clauseProps(fr, qcls[i]), "callback invariant is preserved by one call of the closure: "+qcls[i].Text, t, posOf(ins))
			}
		})
	}
	// after the call: the callee's own contract first (it may say how often / on what the closure
	// was called, in terms of $ncalls starting from 0 here), then the captured variables the
	// closure writes are havoced and the invariant is assumed for the resulting call count
	finish := func(s *State) {
		havoc(s)
		n, ok := s.ghost["$ncalls"]
		if !ok || n.T == nil {
			nv := ex.FreshVar("ncalls", SInt)
			s.Assume(Ge(nv, IntLit(0)))
			n = SV{T: nv, Ty: tInt}
		}
		setGhost(s, n.T)
		ainvs, _ := evalInvs(s)
		for _, t := range ainvs {
			s.Assume(t)
		}
	}
	if ctr != nil && !ctr.Inline {
		setGhost(st, IntLit(0))
		if len(ctr.CallbackParams) == 0 {
			nv := ex.FreshVar("ncalls", SInt)
			st.Assume(Ge(nv, IntLit(0)))
			setGhost(st, nv)
		}
		ex.callByContract(fr, st, ins, callee, ctr, args, func(s2 *State, res Val) {
			finish(s2)
			k(s2, res)
		})
		return true
	}
	{
		nv := ex.FreshVar("ncalls", SInt)
		st.Assume(Ge(nv, IntLit(0)))
		setGhost(st, nv)
	}
	finish(st)
	// no contract: results havoced (visit-style helpers return nothing)
	res, _ := ex.freshResults(shortFn(ex.W.funcName(callee)), callee.Signature)
	k(st, res)
	return true
}
