package main

// Replay template for the nil discipline (C10): call the constructor with a nil error and the
// other arguments of the counterexample; a non-nil result confirms the violation.

import (
	"fmt"
	"go/types"
	"strings"
)

func nilReplay(w *World, o *Obligation, q *Query, _ map[string]string) (string, string) {
	if q.Fn == nil || q.Fn.Pkg == nil || q.Fn.Signature.Recv() != nil || q.Fn.Object() == nil || q.Status != "sat" {
		return "", ""
	}
	if !(strings.Contains(o.Name, "#nilin.nilout") || strings.Contains(o.Name, "#inv.") || (o.Kind == "post" && strings.Contains(o.Text, "== nil ==> result == nil"))) {
		return "", ""
	}
	fn := q.Fn
	if fn.Signature.Results().Len() < 1 || fn.Signature.Results().At(0).Type().String() != "error" {
		return "", ""
	}
	m := ParseModel(q.Output)
	g := &goBuilder{w: w, m: m, home: fn.Pkg.Pkg, imports: map[string]string{}}
	var args []string
	sawErr := false
	for _, p := range fn.Params {
		if p.Type().String() == "error" {
			c := m.Const("p$" + p.Name())
			isNil := true
			if a := CtorArgs(c, "mkI"); a != nil {
				if id, ok := sxInt(a[0]); ok && id != 0 {
					isNil = false
				}
			}
			if isNil {
				args = append(args, "nil")
				sawErr = true
			} else {
				args = append(args, "fmt.Errorf(\"boom\")")
			}
			continue
		}
		if _, ok := p.Type().Underlying().(*types.Slice); ok && fn.Signature.Variadic() && p == fn.Params[len(fn.Params)-1] {
			continue // no variadic arguments
		}
		c := m.Const("p$" + p.Name())
		v := ""
		if c != nil {
			v = g.value(c, p.Type(), 0)
		}
		if v == "" {
			v = "*new(" + g.typeStr(p.Type()) + ")"
		}
		args = append(args, v)
	}
	if !sawErr {
		return "", ""
	}
	var b strings.Builder
	fmt.Fprintf(&b, "package %s\n\nimport (\n\t\"fmt\"\n\t\"testing\"\n", fn.Pkg.Pkg.Name())
	for path, name := range g.imports {
		fmt.Fprintf(&b, "\t%s %q\n", name, path)
	}
	b.WriteString(")\n\n")
	fmt.Fprintf(&b, "// Replay of obligation %s\n// %s\n", o.Name, o.Text)
	fmt.Fprintf(&b, "func TestVerifReplay(t *testing.T) {\n\tr := %s(%s)\n", fn.Name(), strings.Join(args, ", "))
	b.WriteString("\tif r != nil {\n\t\tt.Fatalf(\"REPLAY-CONFIRMED: nil error in, non-nil error out: %T %q\", r, fmt.Sprint(r))\n\t}\n\t_ = fmt.Sprint\n}\n")
	rel := strings.TrimPrefix(strings.TrimPrefix(fn.Pkg.Pkg.Path(), w.ModPath), "/")
	return rel, b.String()
}

func init() {
	registerReplayFirst(`#(nilin\.nilout|inv\.|post\.)`, nilReplay)
}
