package main

// Per-property sweeps (obligations generated without per-function annotation).

func (w *World) sweepsFor(prop string, cfg *RunCfg) []workItem {
	switch prop {
	}
	return nil
}

func propAssumptions(prop string) []string {
	return nil
}
