package main

// Per-property sweeps (obligations generated without per-function annotation).

import (
	"go/types"
	"sort"
	"strings"

	"golang.org/x/tools/go/ssa"
)

type regSite struct {
	Kind    string // LeafDecoder WrapperDecoder MultiCauseDecoder LeafEncoder WrapperEncoder WrapperEncoderWithMessageType MultiCauseEncoder
	Fn      *ssa.Function
	KeyType types.Type // type passed to GetTypeKey when statically known
	KeyConst string    // constant key string (legacy type names)
	In      *ssa.Function
}

// registrationSites extracts every Register* call of the module from SSA.
func (w *World) registrationSites() []regSite {
	var out []regSite
	var fns []*ssa.Function
	for fn := range w.AllFuncs {
		if fn.Pkg != nil && w.InModule(fn.Pkg.Pkg) {
			fns = append(fns, fn)
		}
	}
	sort.Slice(fns, func(i, j int) bool { return fns[i].String() < fns[j].String() })
	for _, fn := range fns {
		if strings.HasSuffix(fn.Pkg.Pkg.Path(), "/testutils") || strings.Contains(fn.Pkg.Pkg.Path(), "fmttests") {
			continue
		}
		for _, b := range fn.Blocks {
			for _, ins := range b.Instrs {
				call, ok := ins.(*ssa.Call)
				if !ok {
					continue
				}
				callee := call.Call.StaticCallee()
				if callee == nil || callee.Pkg == nil || !strings.HasSuffix(callee.Pkg.Pkg.Path(), "/errbase") {
					continue
				}
				name := callee.Name()
				if !strings.HasPrefix(name, "Register") || !(strings.HasSuffix(name, "Decoder") || strings.HasSuffix(name, "Encoder") || strings.HasSuffix(name, "EncoderWithMessageType")) {
					continue
				}
				if fn.Pkg.Pkg.Path() == callee.Pkg.Pkg.Path() && strings.HasPrefix(fn.Name(), "Register") {
					continue // forwarding inside errbase
				}
				if len(call.Call.Args) != 2 {
					continue
				}
				target := resolveFuncValue(call.Call.Args[1])
				if target == nil {
					continue
				}
				rs := regSite{Kind: strings.TrimPrefix(name, "Register"), Fn: target, In: fn}
				rs.KeyType = keyTypeOf(call.Call.Args[0])
				if rs.KeyType == nil {
					var a ssa.Value = call.Call.Args[0]
					for i := 0; i < 4; i++ {
						switch y := a.(type) {
						case *ssa.ChangeType:
							a = y.X
						case *ssa.Convert:
							a = y.X
						}
					}
					if c, ok := a.(*ssa.Const); ok && c.Value != nil {
						rs.KeyConst = strings.Trim(c.Value.ExactString(), "\"")
					} else if g, ok := a.(*ssa.UnOp); ok {
						if gl, ok := g.X.(*ssa.Global); ok {
							rs.KeyConst = "var:" + gl.Name()
						}
					}
				}
				out = append(out, rs)
			}
		}
	}
	return out
}

func resolveFuncValue(v ssa.Value) *ssa.Function {
	for i := 0; i < 6; i++ {
		switch x := v.(type) {
		case *ssa.Function:
			return x
		case *ssa.MakeClosure:
			return x.Fn.(*ssa.Function)
		case *ssa.ChangeType:
			v = x.X
		case *ssa.MakeInterface:
			v = x.X
		default:
			return nil
		}
	}
	return nil
}

// keyTypeOf: the static type of the argument of GetTypeKey(...) feeding a registration.
func keyTypeOf(v ssa.Value) types.Type {
	for i := 0; i < 6; i++ {
		switch x := v.(type) {
		case *ssa.Call:
			if c := x.Call.StaticCallee(); c != nil && c.Name() == "GetTypeKey" && len(x.Call.Args) == 1 {
				a := x.Call.Args[0]
				for j := 0; j < 4; j++ {
					switch y := a.(type) {
					case *ssa.MakeInterface:
						return y.X.Type()
					case *ssa.ChangeInterface:
						a = y.X
					default:
						j = 4
					}
				}
				return nil
			}
			return nil
		case *ssa.Phi:
			return nil
		default:
			return nil
		}
	}
	return nil
}

// errorTypeMethods: methods (with bodies) of module types that implement error, plus opaque types.
func (w *World) errorTypeMethods() []*ssa.Function {
	errT := types.Universe.Lookup("error").Type().Underlying().(*types.Interface)
	var out []*ssa.Function
	seen := map[*ssa.Function]bool{}
	var paths []string
	for p := range w.Pkgs {
		paths = append(paths, p)
	}
	sort.Strings(paths)
	for _, p := range paths {
		sp := w.Pkgs[p]
		if !w.InModule(sp.Pkg) || strings.Contains(p, "testutils") || strings.Contains(p, "fmttests") {
			continue
		}
		var names []string
		for n := range sp.Members {
			names = append(names, n)
		}
		sort.Strings(names)
		for _, n := range names {
			tm, ok := sp.Members[n].(*ssa.Type)
			if !ok {
				continue
			}
			for _, t := range []types.Type{tm.Type(), types.NewPointer(tm.Type())} {
				if !types.Implements(t, errT) {
					continue
				}
				ms := w.Prog.MethodSets.MethodSet(t)
				for i := 0; i < ms.Len(); i++ {
					fn := w.Prog.MethodValue(ms.At(i))
					if fn == nil || len(fn.Blocks) == 0 || seen[fn] || fn.Synthetic != "" {
						continue
					}
					if fn.Pkg == nil || !w.InModule(fn.Pkg.Pkg) {
						continue
					}
					seen[fn] = true
					out = append(out, fn)
				}
			}
		}
	}
	return out
}

func (w *World) sweepsFor(prop string, cfg *RunCfg) []workItem {
	var items []workItem
	switch prop {
	case "C05":
		done := map[*ssa.Function]bool{}
		for _, rs := range w.registrationSites() {
			if !strings.Contains(rs.Kind, "Decoder") || done[rs.Fn] {
				continue
			}
			done[rs.Fn] = true
			kind := rs.Kind
			items = append(items, workItem{fn: rs.Fn, why: "registered " + kind, opts: VerifyOpts{
				Props: map[string]bool{"C05": true}, Safety: true, Vacuity: true,
				ExtraRequires: uniformDecoderRequires,
			}})
		}
		for _, fn := range w.errorTypeMethods() {
			if done[fn] || w.isGenerated(fn) {
				continue
			}
			done[fn] = true
			if _, has := w.Contracts[fn]; has {
				continue // planned through its contract when tagged C05; otherwise swept below
			}
			items = append(items, workItem{fn: fn, why: "method of error type", opts: VerifyOpts{Props: map[string]bool{"C05": true}, Safety: true, ExtraRequires: ifaceParamsNonNil}})
		}
		// methods with contracts not tagged C05 are still swept for safety
		var cfns []*ssa.Function
		for fn, c := range w.Contracts {
			if fn.Signature.Recv() != nil && !contractMentions(c, "C05") && c.Trusted == "" && !c.NoBody {
				cfns = append(cfns, fn)
			}
		}
		sort.Slice(cfns, func(i, j int) bool { return cfns[i].String() < cfns[j].String() })
		for _, fn := range cfns {
			items = append(items, workItem{fn: fn, why: "method of error type", opts: VerifyOpts{Props: map[string]bool{"C05": true}, Safety: true, ExtraRequires: ifaceParamsNonNil}})
		}
	case "C03":
		// sink sweep: every function of the module that calls redact.Safe is symbolically executed;
		// each such call is an obligation "the argument is built from PII-free sources"
		for _, fn := range w.safeSinkFuncs() {
			if c := w.Contracts[fn]; c != nil && contractMentions(c, "C03") {
				continue // planned through its contract
			}
			items = append(items, workItem{fn: fn, why: "redact.Safe sink sweep", opts: VerifyOpts{Props: map[string]bool{"C03": true}, Safety: false, ExtraRequires: ifaceParamsNonNil}})
		}
		for _, fn := range w.redactableConvFuncs() {
			if c := w.Contracts[fn]; c != nil && contractMentions(c, "C03") {
				continue
			}
			dup := false
			for _, it := range items {
				if it.fn == fn {
					dup = true
				}
			}
			if !dup {
				items = append(items, workItem{fn: fn, why: "redactable conversion sweep", opts: VerifyOpts{Props: map[string]bool{"C03": true}, Safety: false, ExtraRequires: ifaceParamsNonNil}})
			}
		}
	case "C06":
		// conversion sweep: every function that converts text to a redactable type
		for _, fn := range w.redactableConvFuncs() {
			if c := w.Contracts[fn]; c != nil && contractMentions(c, "C06") {
				continue
			}
			items = append(items, workItem{fn: fn, why: "redactable conversion sweep", opts: VerifyOpts{Props: map[string]bool{"C06": true}, Safety: false, ExtraRequires: ifaceParamsNonNil, OnlyKinds: map[string]bool{"redactable": true}}})
		}
	case "C04", "C01":
		// no drift on re-encoding: the functions on the encoding path (EncodeError and what it calls,
		// every SafeDetails method, the registered encoders, Fill) must leave the error they look at
		// unchanged - the same ownership obligations as the C18 sweep, for that subset
		for _, fn := range w.frameSweepFuncs() {
			root := fn
			for root.Parent() != nil {
				root = root.Parent()
			}
			n := root.Name()
			if !(strings.HasPrefix(n, "encode") || strings.HasPrefix(n, "Encode") || n == "SafeDetails" || n == "Fill" || n == "GetSafeDetails" || n == "getTypeDetails" || n == "extractPrefix" || n == "getDetails") {
				continue
			}
			items = append(items, workItem{fn: fn, why: "read-only frame sweep (encoding path)", opts: VerifyOpts{
				Props: map[string]bool{prop: true}, Safety: false, Frame: true,
				OnlyKinds:     map[string]bool{"frame": true},
				ExtraRequires: ifaceParamsNonNil,
			}})
		}
	case "C18":
		// frame sweep: every function of the module's non-test packages is executed symbolically
		// and every heap store / map update / global store / pointer argument handed to a module
		// callee carries the obligation "owned by this call" (see frameOwned)
		for _, fn := range w.frameSweepFuncs() {
			items = append(items, workItem{fn: fn, why: "read-only frame sweep", opts: VerifyOpts{
				Props: map[string]bool{"C18": true}, Safety: false, Frame: true,
				OnlyKinds:     map[string]bool{"frame": true},
				ExtraRequires: ifaceParamsNonNil,
			}})
		}
	case "C10":
		// nil discipline sweep: every exported function of the module that takes one error and
		// returns an error returns nil for a nil argument (functions with an explicit C10 contract
		// are checked against that contract instead: CombineErrors, WithSecondaryError, Join, ...)
		for _, fn := range w.exportedErrorFuncs() {
			if c := w.Contracts[fn]; c != nil && contractMentions(c, "C10") {
				continue
			}
			fn := fn
			items = append(items, workItem{fn: fn, why: "nil-discipline sweep", opts: VerifyOpts{
				Props: map[string]bool{"C10": true}, Safety: false,
				ExtraRequires: ifaceParamsNonNil,
				ExtraPosts: func(ex *Ex, fr *Frame, st *State, results []SV) []NamedGoal {
					var ep *ssa.Parameter
					for _, p := range fn.Params {
						if p.Type().String() == "error" {
							ep = p
							break
						}
					}
					if ep == nil || len(results) == 0 {
						return nil
					}
					in := fr.Entry.regs[ep].T
					return []NamedGoal{{Name: "nilin.nilout", Text: "a nil " + ep.Name() + " yields a nil result", Goal: Implies(IfaceIsNil(in), IfaceIsNil(results[0].T)), Props: []string{"C10"}}}
				},
			}})
		}
	}
	// invariant sweep: a type invariant scoped to this property is only as good as the set of
	// functions checked against it - every module function that builds a value of such a type is
	// verified under the property, whether or not its own contract names it
	for _, fn := range w.scopedInvariantConstructors(prop) {
		if c := w.Contracts[fn]; c != nil && (contractMentions(c, prop) || c.Trusted != "" || c.NoBody) {
			continue
		}
		dup := false
		for _, it := range items {
			if it.fn == fn {
				dup = true
			}
		}
		if !dup {
			items = append(items, workItem{fn: fn, why: "constructor of a type with a " + prop + " invariant", opts: VerifyOpts{Props: map[string]bool{prop: true}, Safety: false, ExtraRequires: ifaceParamsNonNil}})
		}
	}
	return items
}

// exportedErrorFuncs: exported package-level functions of the module's non-test packages with
// exactly one parameter of type error and whose first result is an error.
func (w *World) exportedErrorFuncs() []*ssa.Function {
	var out []*ssa.Function
	var paths []string
	for p := range w.Pkgs {
		paths = append(paths, p)
	}
	sort.Strings(paths)
	for _, p := range paths {
		sp := w.Pkgs[p]
		if !w.InModule(sp.Pkg) || strings.Contains(p, "testutils") || strings.Contains(p, "fmttests") || strings.Contains(p, "/internal") {
			continue
		}
		var names []string
		for n := range sp.Members {
			names = append(names, n)
		}
		sort.Strings(names)
		for _, n := range names {
			fn, ok := sp.Members[n].(*ssa.Function)
			if !ok || fn.Object() == nil || !fn.Object().Exported() || len(fn.Blocks) == 0 {
				continue
			}
			sig := fn.Signature
			if sig.Results().Len() < 1 || sig.Results().At(0).Type().String() != "error" {
				continue
			}
			nerr := 0
			for i := 0; i < sig.Params().Len(); i++ {
				if sig.Params().At(i).Type().String() == "error" {
					nerr++
				}
			}
			if nerr != 1 {
				continue
			}
			out = append(out, fn)
		}
	}
	return out
}

func propAssumptions(prop string) []string {
	switch prop {
	case "C05":
		return []string{
			"C05: decoders are checked against the uniform decoder contract (payload: any interface value; details: any slice; msg: any string; wrapper cause non-nil)",
			"C05: panics inside protobuf unmarshalling, fmt, redact, sentry are not decided (external)",
			"C05: receivers of error-type methods are non-nil (T13)",
		}
	case "C03":
		return []string{
			"C03: redact.Sprintf/Sprint/Redact/StripMarkers are specified, not verified (T7): the redacted form of any redactable string is PII-free; marker escaping inside redact is not decided",
			"C03: declared-safe sources are assumed PII-free: foreign SafeDetailer/SafeFormatter/SafeMessager implementations, ErrorKeyMarker, stdlib sentinel/errno/runtime error texts, Op/Net/Syscall fields of os and net errors, logtags keys, protobuf type URLs, type names",
			"C03: an application-registered encoder returns PII-free reportable payloads (axioms registered_encoders_safe / registered_leaf_encoders_safe; proved for every encoder the library registers)",
			"C03: the PII-free wire fields and errno leaf messages received from a peer satisfy the invariant EncodeError ensures on the peer (requires[C03] of DecodeError / decodeErrno)",
			"C03: the format engine's rendering path is covered from one ASSUMED clause of collectEntry (an entry flagged redactable was filled through redact's printer and keeps its PII inside markers); the Sentry event fields are not covered by this check",
		}
	case "C12":
		return []string{
			"C12: presence of safe parts inside redact's renderings and inside the Sentry report is not decided (T7; C15 decides the report's structure, not the presence of individual safe strings)",
			"C12: induction over chain length composes the per-layer contracts through the recursive specifications allSD/foldSD (unfolded per obligation)",
		}
	case "C18":
		return []string{
			"C18: sufficient condition only (read-only frame); no thread schedule is explored by this technique",
			"C18: external packages (fmt, redact, protobuf, sentry, logtags) do not write through error-owned pointers handed to them; only bytes.Buffer / strings.Builder mutators are modelled as writers",
			"C18 (A18.1, structural rule only): objects reachable from per-call state (state, printers, buffers) are per-call",
			"C18: init functions and the registration API (Register*, SetWarningFn, TestingWithEmptyMigrationRegistry) are excluded: concurrent registration is outside the property statement",
		}
	}
	return nil
}

// isGenerated: protobuf-generated code (T9) is outside the claim.
func (w *World) isGenerated(fn *ssa.Function) bool {
	if fn.Pkg != nil && strings.HasSuffix(fn.Pkg.Pkg.Path(), "/errorspb") {
		return true
	}
	p := w.Fset.Position(fn.Pos())
	return strings.HasSuffix(p.Filename, ".pb.go")
}

// uniformDecoderRequires: the contract every registered decoder is checked against (DESIGN A.5).
func uniformDecoderRequires(ex *Ex, fr *Frame, st *State) []*T {
	var rq []*T
	for _, p := range fr.Fn.Params {
		v := st.regs[p].T
		switch {
		case p.Name() == "cause" && isIface(p.Type()):
			rq = append(rq, Not(IfaceIsNil(v)))
		case p.Name() == "causes" && isSliceT(p.Type()):
			es := ex.W.SortOf(p.Type().Underlying().(*types.Slice).Elem())
			j := Var("j!c", SInt)
			rq = append(rq, Forall([]*T{j}, Implies(And(Ge(j, IntLit(0)), Lt(j, ex.W.SliceLen(v))), Not(IfaceIsNil(Select(ex.W.SliceArr(v, es), j))))))
		case p.Name() == "payload" && isIface(p.Type()):
			// an embedded EncodedError is itself structurally complete
			env := ex.newEnv(fr, st)
			env.pkgName = "errbase"
			e, err := parseExprString("typeis(payload, *errorspb.EncodedError) && payload.(*errorspb.EncodedError).Error != nil ==> complete(deref(payload.(*errorspb.EncodedError)))", "uniform", 0)
			if err == nil {
				env.vars["payload"] = SV{T: v, Ty: SType{G: p.Type()}}
				if t, err := ex.trBool(env, e); err == nil {
					rq = append(rq, t)
				}
			}
		}
	}
	return rq
}

// ifaceParamsNonNil: interface parameters other than error/any (Printer, fmt.State, ...) are non-nil.
func ifaceParamsNonNil(ex *Ex, fr *Frame, st *State) []*T {
	var rq []*T
	for i, p := range fr.Fn.Params {
		if i == 0 && fr.Fn.Signature.Recv() != nil {
			continue
		}
		if it, ok := p.Type().Underlying().(*types.Interface); ok && it.NumMethods() > 0 && p.Type().String() != "error" {
			rq = append(rq, Not(IfaceIsNil(st.regs[p].T)))
		}
	}
	return rq
}

// safeSinkFuncs: functions of the module (non-test packages) containing a call to redact.Safe.
func (w *World) safeSinkFuncs() []*ssa.Function {
	var out []*ssa.Function
	for fn := range w.AllFuncs {
		if fn.Pkg == nil || !w.InModule(fn.Pkg.Pkg) || w.isGenerated(fn) {
			continue
		}
		p := fn.Pkg.Pkg.Path()
		if strings.Contains(p, "testutils") || strings.Contains(p, "fmttests") {
			continue
		}
		if pos := w.Fset.Position(fn.Pos()); strings.HasSuffix(pos.Filename, "_test.go") {
			continue
		}
		has := false
		for _, b := range fn.Blocks {
			for _, ins := range b.Instrs {
				if c, ok := ins.(*ssa.Call); ok {
					if callee := c.Call.StaticCallee(); callee != nil && callee.String() == "github.com/cockroachdb/redact.Safe" {
						has = true
					}
				}
			}
		}
		if has && fn.Parent() == nil && !strings.HasPrefix(fn.Name(), "init") {
			out = append(out, fn)
		}
	}
	sort.Slice(out, func(i, j int) bool { return out[i].String() < out[j].String() })
	return out
}

// encoderSafetySweep (C03): every function registered as an encoder returns a PII-free reportable
// payload (its second result). Functions already planned through their contract get the goal
// added; the others are planned here. This is the proof side of the assumptions
// registered_encoders_safe / registered_leaf_encoders_safe used by encodeWrapper / encodeLeaf.
func (w *World) encoderSafetySweep(items []workItem) []workItem {
	goal := func(ex *Ex, fr *Frame, st *State, results []SV) []NamedGoal {
		if len(results) < 2 {
			return nil
		}
		if _, ok := results[1].Ty.G.Underlying().(*types.Slice); !ok {
			return nil
		}
		return []NamedGoal{{Name: "encoder.safe", Text: "the reportable payload returned by a registered encoder is PII-free", Goal: App("f$safeSeq", SBool, results[1].T), Props: []string{"C03"}}}
	}
	planned := map[*ssa.Function]int{}
	for i, it := range items {
		if it.fn != nil {
			planned[it.fn] = i + 1
		}
	}
	done := map[*ssa.Function]bool{}
	for _, rs := range w.registrationSites() {
		if !strings.Contains(rs.Kind, "Encoder") || done[rs.Fn] {
			continue
		}
		done[rs.Fn] = true
		if i := planned[rs.Fn]; i > 0 {
			items[i-1].opts.ExtraPosts = goal
			continue
		}
		items = append(items, workItem{fn: rs.Fn, why: "registered " + rs.Kind, opts: VerifyOpts{
			Props: map[string]bool{"C03": true}, Safety: false, Vacuity: true,
			ExtraRequires: ifaceParamsNonNil, ExtraPosts: goal,
		}})
	}
	return items
}

// frameMutators: the functions whose documented purpose is to change process-wide state; they are
// not observers and are excluded from the read-only sweep (C18 statement: registration is not in
// scope).
var frameMutators = map[string]bool{
	"SetWarningFn": true, "TestingWithEmptyMigrationRegistry": true,
}

// frameSweepFuncs: all functions with bodies of the module's non-test, non-generated packages,
// including closures, except init functions and the registration API.
func (w *World) frameSweepFuncs() []*ssa.Function {
	var out []*ssa.Function
	for fn := range w.AllFuncs {
		if fn.Pkg == nil && fn.Parent() != nil {
			// closures carry their parent's package
		}
		pkg := fn.Pkg
		if pkg == nil && fn.Parent() != nil {
			pkg = fn.Parent().Pkg
		}
		if pkg == nil || !w.InModule(pkg.Pkg) || w.isGenerated(fn) || len(fn.Blocks) == 0 {
			continue
		}
		p := pkg.Pkg.Path()
		if strings.Contains(p, "testutils") || strings.Contains(p, "fmttests") {
			continue
		}
		if pos := w.Fset.Position(fn.Pos()); strings.HasSuffix(pos.Filename, "_test.go") || pos.Filename == "" {
			continue
		}
		if fn.Synthetic != "" {
			continue
		}
		root := fn
		for root.Parent() != nil {
			root = root.Parent()
		}
		name := root.Name()
		if strings.HasPrefix(name, "init") || strings.HasPrefix(name, "Register") || frameMutators[name] {
			continue
		}
		out = append(out, fn)
	}
	sort.Slice(out, func(i, j int) bool { return out[i].String() < out[j].String() })
	return out
}

// redactableConvFuncs: functions of the module (non-test packages) that convert to a redactable type.
func (w *World) redactableConvFuncs() []*ssa.Function {
	var out []*ssa.Function
	for fn := range w.AllFuncs {
		pkg := fn.Pkg
		if pkg == nil && fn.Parent() != nil {
			pkg = fn.Parent().Pkg
		}
		if pkg == nil || !w.InModule(pkg.Pkg) || w.isGenerated(fn) || len(fn.Blocks) == 0 {
			continue
		}
		p := pkg.Pkg.Path()
		if strings.Contains(p, "testutils") || strings.Contains(p, "fmttests") {
			continue
		}
		if pos := w.Fset.Position(fn.Pos()); strings.HasSuffix(pos.Filename, "_test.go") || pos.Filename == "" {
			continue
		}
		if strings.HasPrefix(fn.Name(), "init") {
			continue
		}
		has := false
		for _, b := range fn.Blocks {
			for _, ins := range b.Instrs {
				if ct, ok := ins.(*ssa.ChangeType); ok {
					tn := ct.Type().String()
					if (strings.HasSuffix(tn, "redact.RedactableString") || strings.HasSuffix(tn, "redact.RedactableBytes")) && ct.X.Type().String() != tn {
						has = true
					}
				}
			}
		}
		if has {
			out = append(out, fn)
		}
	}
	sort.Slice(out, func(i, j int) bool { return out[i].String() < out[j].String() })
	return out
}

// scopedInvariantConstructors: functions of the module (non-test packages) that allocate a struct
// whose type carries an invariant scoped to prop.
func (w *World) scopedInvariantConstructors(prop string) []*ssa.Function {
	scoped := map[string]bool{}
	for tn, tis := range w.TypeInvs {
		for _, ti := range tis {
			for _, p := range ti.Props {
				if p == prop {
					scoped[tn] = true
				}
			}
		}
	}
	if len(scoped) == 0 {
		return nil
	}
	var out []*ssa.Function
	for fn := range w.AllFuncs {
		pkg := fn.Pkg
		if pkg == nil && fn.Parent() != nil {
			pkg = fn.Parent().Pkg
		}
		if pkg == nil || !w.InModule(pkg.Pkg) || w.isGenerated(fn) || len(fn.Blocks) == 0 || fn.Synthetic != "" {
			continue
		}
		p := pkg.Pkg.Path()
		if strings.Contains(p, "testutils") || strings.Contains(p, "fmttests") {
			continue
		}
		if pos := w.Fset.Position(fn.Pos()); strings.HasSuffix(pos.Filename, "_test.go") || pos.Filename == "" {
			continue
		}
		// package initialisation (init functions and the registration helpers they call) builds
		// zero values only to compute type keys; it is outside the sweep
		if fn.Name() == "init" || strings.HasPrefix(fn.Name(), "init#") || strings.HasPrefix(fn.Name(), "register") {
			continue
		}
		has := false
		for _, b := range fn.Blocks {
			for _, ins := range b.Instrs {
				if a, ok := ins.(*ssa.Alloc); ok {
					if pt, ok := a.Type().Underlying().(*types.Pointer); ok && scoped[pt.Elem().String()] {
						has = true
					}
				}
			}
		}
		if has {
			out = append(out, fn)
		}
	}
	sort.Slice(out, func(i, j int) bool { return out[i].String() < out[j].String() })
	return out
}
