package main

// Lexer + parser for the contract language (Gobra-flavoured, see DESIGN §2.1).

import (
	"fmt"
	"os"
	"strconv"
	"strings"
	"unicode"
)

// ---------------- AST ----------------

type TypeExpr struct {
	Params  []*TypeExpr // func
	Results []*TypeExpr // func
	Kind    string      // name, ptr, slice, map, set, func, iface
	Pkg     string
	Name    string
	Elem    *TypeExpr
	Key     *TypeExpr
}

func (t *TypeExpr) String() string {
	if t == nil {
		return "<nil>"
	}
	switch t.Kind {
	case "ptr":
		return "*" + t.Elem.String()
	case "slice":
		return "[]" + t.Elem.String()
	case "map":
		return "map[" + t.Key.String() + "]" + t.Elem.String()
	case "set":
		return "set[" + t.Elem.String() + "]"
	case "name":
		if t.Pkg != "" {
			return t.Pkg + "." + t.Name
		}
		return t.Name
	}
	return t.Kind
}

type Param struct {
	Name string
	Type *TypeExpr
}

type Expr struct {
	Kind string // ident int str bool nil binop unop call field cast index slice cond quant old typeis typeof typeid let len
	Name string // ident name, operator, field name, callee name, quant kind
	Args []*Expr
	Type *TypeExpr
	Vars []Param
	Pats [][]*Expr
	Line int
	File string
}

func (e *Expr) String() string {
	if e == nil {
		return "<nil>"
	}
	switch e.Kind {
	case "ident", "int", "bool":
		return e.Name
	case "str":
		return strconv.Quote(e.Name)
	case "nil":
		return "nil"
	case "binop":
		return "(" + e.Args[0].String() + " " + e.Name + " " + e.Args[1].String() + ")"
	case "unop":
		return e.Name + e.Args[0].String()
	case "call":
		var as []string
		for _, a := range e.Args {
			as = append(as, a.String())
		}
		return e.Name + "(" + strings.Join(as, ", ") + ")"
	case "field":
		return e.Args[0].String() + "." + e.Name
	case "cast":
		return e.Args[0].String() + ".(" + e.Type.String() + ")"
	case "index":
		return e.Args[0].String() + "[" + e.Args[1].String() + "]"
	case "slice":
		s := e.Args[0].String() + "["
		if e.Args[1] != nil {
			s += e.Args[1].String()
		}
		s += ":"
		if e.Args[2] != nil {
			s += e.Args[2].String()
		}
		return s + "]"
	case "cond":
		return "(" + e.Args[0].String() + " ? " + e.Args[1].String() + " : " + e.Args[2].String() + ")"
	case "quant":
		var vs []string
		for _, v := range e.Vars {
			vs = append(vs, v.Name+" "+v.Type.String())
		}
		return "(" + e.Name + " " + strings.Join(vs, ", ") + " :: " + e.Args[0].String() + ")"
	case "old":
		return "old(" + e.Args[0].String() + ")"
	case "typeis":
		return "typeis(" + e.Args[0].String() + ", " + e.Type.String() + ")"
	case "typeof":
		return "typeof(" + e.Args[0].String() + ")"
	case "typeid":
		return "typeid(" + e.Type.String() + ")"
	case "let":
		return "(let " + e.Name + " := " + e.Args[0].String() + " :: " + e.Args[1].String() + ")"
	}
	return e.Kind
}

// Clause is one requires/ensures/invariant/assert clause.
type Clause struct {
	Kind  string // requires ensures invariant assert assume maypanic
	Props []string
	E     *Expr
	Text  string
	Ord   int // ordinal among clauses of the same kind within the contract
	Line  int
	File  string
}

type GhostVar struct {
	Name string
	Type *TypeExpr
	Init *Expr
	Step *Expr
}

type LoopSpec struct {
	Ord      int
	Invs     []*Clause
	Ghosts   []*GhostVar
	Isolated bool
}

type LemmaStep struct {
	Kind   string // let assert assume call
	Names  []string
	Callee string // for call: pkgname.Func or pkgname.(*T).M
	Args   []*Expr
	E      *Expr
	Clause *Clause
	Inline bool // call executes the real body rather than the contract
	Line   int
}

type Contract struct {
	Kind           string // func method extern-func extern-method lemma
	Pkg            string // package path (for func/method), filled by loader
	PkgName        string
	Recv           *TypeExpr
	Name           string
	Params         []Param // lemma / extern / spec func params
	Results        []Param
	Props          []string
	Requires       []*Clause
	Ensures        []*Clause
	Maintains      []string                     // global invariants re-established on exit
	MaintainsScope map[string][]string          // optional property scope of a maintains clause
	Reveal         []string                     // opaque spec functions whose definition is used here
	GroundUnfold   []string
	CallbackParams []string
	Assumes        []*Clause // assumed (unverified) postconditions
	Conceal        []string                     // spec functions whose definition is NOT used in this contract\'s queries
	Callbacks      map[string]*LoopSpec         // invariants over captured variables across calls that take a closure ("callback callee: invariant E")
	InlineLoops    map[string]map[int]*LoopSpec // invariants supplied by this contract for loops of inlined callees ("loop callee.N: ...")
	Uses           []string                     // pure lemmas (proved separately) whose statements are assumed here
	PureCalls      bool                         // every call through a function value in this function is pure and deterministic
	PureFns        []string                     // function-typed parameters whose calls are pure and deterministic (T6)
	Defines        *Expr                        // result of this pure, deterministic function is denoted by this spec application
	MayPanic       []*Clause                    // E may be nil (unconditional)
	Assigns        []string
	Loops          map[int]*LoopSpec
	Inline         bool
	Trusted        string
	Pure           bool
	Steps          []*LemmaStep
	Level          *LevelSpec
	NoBody         bool // do not verify body (extern/trusted)
	File           string
	Line           int
}

type LevelSpec struct {
	Depth    string // parameter name or "" (0)
	Captures string // stack | domain
}

type SpecFunc struct {
	Opaque  bool // definition used only where revealed
	Name    string
	Params  []Param
	Ret     *TypeExpr
	Def     *Expr // macro definition (non-recursive), may be nil
	Unfold  *Expr // recursive definitional axiom body, instantiated per ground application
	PkgName string
	File    string
	Line    int
}

type Axiom struct {
	Name    string
	E       *Expr
	PkgName string
	File    string
	Line    int
}

type TypeInv struct {
	Props   []string // scoped to these properties (empty: always active)
	Type    *TypeExpr
	E       *Expr
	PkgName string
	File    string
	Line    int
	Text    string
}

type IfaceMethod struct {
	Iface   string // e.g. error, fmt.Formatter ; "*" for any interface having the method
	Method  string
	E       *Expr // expression over self (and params p0..)
	Params  []Param
	PkgName string
}

type GlobalInv struct {
	Name    string
	E       *Expr
	PkgName string
	File    string
	Line    int
	Text    string
}

type SpecFile struct {
	Imports    map[string]string // alias -> import path
	GlobalInvs []*GlobalInv
	Path       string
	PkgName    string // package whose scope resolves unqualified names ("" for prelude)
	Contracts  []*Contract
	Funcs      []*SpecFunc
	Axioms     []*Axiom
	TypeInvs   []*TypeInv
	IfaceMs    []*IfaceMethod
}

// ---------------- lexer ----------------

type tok struct {
	k    string // id int str op eof
	s    string
	line int
}

type lexer struct {
	toks []tok
	pos  int
	file string
}

var ops3 = []string{"<==>", "==>", "::", ":=", "==", "!=", "<=", ">=", "&&", "||", "++", "..."}

func lex(src string, file string, baseLine int) (*lexer, error) {
	lx := &lexer{file: file}
	line := baseLine
	i := 0
	for i < len(src) {
		c := src[i]
		if c == '\n' {
			line++
			i++
			continue
		}
		if c == ' ' || c == '\t' || c == '\r' {
			i++
			continue
		}
		if c == '/' && i+1 < len(src) && src[i+1] == '/' {
			for i < len(src) && src[i] != '\n' {
				i++
			}
			continue
		}
		if unicode.IsLetter(rune(c)) || c == '_' || c == '$' {
			j := i + 1
			for j < len(src) && (unicode.IsLetter(rune(src[j])) || unicode.IsDigit(rune(src[j])) || src[j] == '_' || src[j] == '$') {
				j++
			}
			lx.toks = append(lx.toks, tok{"id", src[i:j], line})
			i = j
			continue
		}
		if unicode.IsDigit(rune(c)) {
			j := i + 1
			for j < len(src) && unicode.IsDigit(rune(src[j])) {
				j++
			}
			lx.toks = append(lx.toks, tok{"int", src[i:j], line})
			i = j
			continue
		}
		if c == '"' {
			j := i + 1
			for j < len(src) && src[j] != '"' {
				if src[j] == '\\' {
					j++
				}
				j++
			}
			if j >= len(src) {
				return nil, fmt.Errorf("%s:%d: unterminated string", file, line)
			}
			s, err := strconv.Unquote(src[i : j+1])
			if err != nil {
				return nil, fmt.Errorf("%s:%d: bad string %s", file, line, src[i:j+1])
			}
			lx.toks = append(lx.toks, tok{"str", s, line})
			i = j + 1
			continue
		}
		if c == '\'' {
			// rune literal -> int
			j := i + 1
			for j < len(src) && src[j] != '\'' {
				if src[j] == '\\' {
					j++
				}
				j++
			}
			r, _, _, err := strconv.UnquoteChar(src[i+1:j], '\'')
			if err != nil {
				return nil, fmt.Errorf("%s:%d: bad rune", file, line)
			}
			lx.toks = append(lx.toks, tok{"int", strconv.Itoa(int(r)), line})
			i = j + 1
			continue
		}
		matched := false
		for _, o := range ops3 {
			if strings.HasPrefix(src[i:], o) {
				lx.toks = append(lx.toks, tok{"op", o, line})
				i += len(o)
				matched = true
				break
			}
		}
		if matched {
			continue
		}
		lx.toks = append(lx.toks, tok{"op", string(c), line})
		i++
	}
	lx.toks = append(lx.toks, tok{"eof", "", line})
	return lx, nil
}

func (l *lexer) peek() tok { return l.toks[l.pos] }
func (l *lexer) peekN(n int) tok {
	if l.pos+n < len(l.toks) {
		return l.toks[l.pos+n]
	}
	return l.toks[len(l.toks)-1]
}
func (l *lexer) next() tok { t := l.toks[l.pos]; l.pos++; return t }
func (l *lexer) isOp(s string) bool {
	t := l.peek()
	return t.k == "op" && t.s == s
}
func (l *lexer) isID(s string) bool {
	t := l.peek()
	return t.k == "id" && t.s == s
}
func (l *lexer) accept(s string) bool {
	if l.isOp(s) {
		l.pos++
		return true
	}
	return false
}
func (l *lexer) expect(s string) error {
	if !l.accept(s) {
		t := l.peek()
		return fmt.Errorf("%s:%d: expected %q, found %q", l.file, t.line, s, t.s)
	}
	return nil
}
func (l *lexer) errf(format string, a ...interface{}) error {
	return fmt.Errorf("%s:%d: %s", l.file, l.peek().line, fmt.Sprintf(format, a...))
}

// ---------------- expression parser ----------------

func (l *lexer) parseType() (*TypeExpr, error) {
	t := l.peek()
	switch {
	case l.accept("*"):
		e, err := l.parseType()
		if err != nil {
			return nil, err
		}
		return &TypeExpr{Kind: "ptr", Elem: e}, nil
	case l.isOp("["):
		l.next()
		if err := l.expect("]"); err != nil {
			return nil, err
		}
		e, err := l.parseType()
		if err != nil {
			return nil, err
		}
		return &TypeExpr{Kind: "slice", Elem: e}, nil
	case t.k == "id" && (t.s == "map" || t.s == "set") && l.peekN(1).s == "[":
		l.next()
		l.next()
		k, err := l.parseType()
		if err != nil {
			return nil, err
		}
		if err := l.expect("]"); err != nil {
			return nil, err
		}
		if t.s == "set" {
			return &TypeExpr{Kind: "set", Elem: k}, nil
		}
		e, err := l.parseType()
		if err != nil {
			return nil, err
		}
		return &TypeExpr{Kind: "map", Key: k, Elem: e}, nil
	case t.k == "id" && t.s == "func" && l.peekN(1).s == "(":
		l.next()
		l.next()
		fe := &TypeExpr{Kind: "func"}
		for !l.isOp(")") {
			pt, err := l.parseType()
			if err != nil {
				return nil, err
			}
			fe.Params = append(fe.Params, pt)
			if !l.accept(",") {
				break
			}
		}
		if err := l.expect(")"); err != nil {
			return nil, err
		}
		if l.isOp("(") {
			l.next()
			for !l.isOp(")") {
				rt, err := l.parseType()
				if err != nil {
					return nil, err
				}
				fe.Results = append(fe.Results, rt)
				if !l.accept(",") {
					break
				}
			}
			if err := l.expect(")"); err != nil {
				return nil, err
			}
		} else if tk := l.peek(); tk.k == "id" || tk.s == "*" || tk.s == "[" {
			rt, err := l.parseType()
			if err != nil {
				return nil, err
			}
			fe.Results = append(fe.Results, rt)
		}
		return fe, nil
	case t.k == "id":
		l.next()
		if t.s == "interface" && l.isOp("{") {
			l.next()
			if err := l.expect("}"); err != nil {
				return nil, err
			}
			return &TypeExpr{Kind: "name", Name: "any"}, nil
		}
		if l.isOp(".") && l.peekN(1).k == "id" {
			l.next()
			n := l.next()
			return &TypeExpr{Kind: "name", Pkg: t.s, Name: n.s}, nil
		}
		return &TypeExpr{Kind: "name", Name: t.s}, nil
	}
	return nil, l.errf("expected type, found %q", t.s)
}

func (l *lexer) parseExpr() (*Expr, error) { return l.parseQuant() }

func (l *lexer) mk(kind, name string, args ...*Expr) *Expr {
	return &Expr{Kind: kind, Name: name, Args: args, Line: l.peek().line, File: l.file}
}

func (l *lexer) parseQuant() (*Expr, error) {
	t := l.peek()
	if t.k == "id" && (t.s == "forall" || t.s == "exists") {
		l.next()
		var vars []Param
		for {
			var names []string
			for {
				n := l.next()
				if n.k != "id" {
					return nil, l.errf("expected bound variable name")
				}
				names = append(names, n.s)
				if !l.accept(",") {
					break
				}
			}
			ty, err := l.parseType()
			if err != nil {
				return nil, err
			}
			for _, n := range names {
				vars = append(vars, Param{n, ty})
			}
			if !l.accept(",") {
				break
			}
		}
		if err := l.expect("::"); err != nil {
			return nil, err
		}
		var pats [][]*Expr
		for l.isOp("{") {
			l.next()
			var p []*Expr
			for {
				e, err := l.parseIff()
				if err != nil {
					return nil, err
				}
				p = append(p, e)
				if !l.accept(",") {
					break
				}
			}
			if err := l.expect("}"); err != nil {
				return nil, err
			}
			pats = append(pats, p)
		}
		body, err := l.parseQuant()
		if err != nil {
			return nil, err
		}
		e := l.mk("quant", t.s, body)
		e.Vars = vars
		e.Pats = pats
		return e, nil
	}
	if t.k == "id" && t.s == "let" {
		l.next()
		n := l.next()
		if err := l.expect(":="); err != nil {
			return nil, err
		}
		v, err := l.parseIff()
		if err != nil {
			return nil, err
		}
		if err := l.expect("::"); err != nil {
			return nil, err
		}
		b, err := l.parseQuant()
		if err != nil {
			return nil, err
		}
		return l.mk("let", n.s, v, b), nil
	}
	return l.parseIff()
}

func (l *lexer) parseIff() (*Expr, error) {
	a, err := l.parseImp()
	if err != nil {
		return nil, err
	}
	for l.accept("<==>") {
		b, err := l.parseImp()
		if err != nil {
			return nil, err
		}
		a = l.mk("binop", "<==>", a, b)
	}
	return a, nil
}

func (l *lexer) parseImp() (*Expr, error) {
	a, err := l.parseCond()
	if err != nil {
		return nil, err
	}
	if l.accept("==>") {
		// right assoc; allow a quantifier on the rhs
		b, err := l.parseImpRhs()
		if err != nil {
			return nil, err
		}
		return l.mk("binop", "==>", a, b), nil
	}
	return a, nil
}

func (l *lexer) parseImpRhs() (*Expr, error) {
	t := l.peek()
	if t.k == "id" && (t.s == "forall" || t.s == "exists" || t.s == "let") {
		return l.parseQuant()
	}
	return l.parseImp()
}

func (l *lexer) parseCond() (*Expr, error) {
	c, err := l.parseOr()
	if err != nil {
		return nil, err
	}
	if l.accept("?") {
		a, err := l.parseCond()
		if err != nil {
			return nil, err
		}
		if err := l.expect(":"); err != nil {
			return nil, err
		}
		b, err := l.parseCond()
		if err != nil {
			return nil, err
		}
		return l.mk("cond", "", c, a, b), nil
	}
	return c, nil
}

func (l *lexer) parseOr() (*Expr, error) {
	a, err := l.parseAnd()
	if err != nil {
		return nil, err
	}
	for l.accept("||") {
		b, err := l.parseAnd()
		if err != nil {
			return nil, err
		}
		a = l.mk("binop", "||", a, b)
	}
	return a, nil
}

func (l *lexer) parseAnd() (*Expr, error) {
	a, err := l.parseCmp()
	if err != nil {
		return nil, err
	}
	for l.accept("&&") {
		b, err := l.parseCmp()
		if err != nil {
			return nil, err
		}
		a = l.mk("binop", "&&", a, b)
	}
	return a, nil
}

func (l *lexer) parseCmp() (*Expr, error) {
	a, err := l.parseAddE()
	if err != nil {
		return nil, err
	}
	for {
		t := l.peek()
		if t.k == "op" && (t.s == "==" || t.s == "!=" || t.s == "<" || t.s == "<=" || t.s == ">" || t.s == ">=") {
			l.next()
			b, err := l.parseAddE()
			if err != nil {
				return nil, err
			}
			a = l.mk("binop", t.s, a, b)
			continue
		}
		if t.k == "id" && t.s == "in" {
			l.next()
			b, err := l.parseAddE()
			if err != nil {
				return nil, err
			}
			a = l.mk("binop", "in", a, b)
			continue
		}
		return a, nil
	}
}

func (l *lexer) parseAddE() (*Expr, error) {
	a, err := l.parseMul()
	if err != nil {
		return nil, err
	}
	for {
		t := l.peek()
		if t.k == "op" && (t.s == "+" || t.s == "-" || t.s == "++") {
			l.next()
			b, err := l.parseMul()
			if err != nil {
				return nil, err
			}
			a = l.mk("binop", t.s, a, b)
			continue
		}
		return a, nil
	}
}

func (l *lexer) parseMul() (*Expr, error) {
	a, err := l.parseUnary()
	if err != nil {
		return nil, err
	}
	for {
		t := l.peek()
		if t.k == "op" && (t.s == "*" || t.s == "/" || t.s == "%") {
			l.next()
			b, err := l.parseUnary()
			if err != nil {
				return nil, err
			}
			a = l.mk("binop", t.s, a, b)
			continue
		}
		return a, nil
	}
}

func (l *lexer) parseUnary() (*Expr, error) {
	if l.accept("!") {
		a, err := l.parseUnary()
		if err != nil {
			return nil, err
		}
		return l.mk("unop", "!", a), nil
	}
	if l.accept("-") {
		a, err := l.parseUnary()
		if err != nil {
			return nil, err
		}
		return l.mk("unop", "-", a), nil
	}
	return l.parsePostfix()
}

func (l *lexer) parseArgs() ([]*Expr, error) {
	var args []*Expr
	if l.accept(")") {
		return args, nil
	}
	for {
		e, err := l.parseExpr()
		if err != nil {
			return nil, err
		}
		args = append(args, e)
		if l.accept(",") {
			continue
		}
		if err := l.expect(")"); err != nil {
			return nil, err
		}
		return args, nil
	}
}

func (l *lexer) parsePostfix() (*Expr, error) {
	a, err := l.parsePrimary()
	if err != nil {
		return nil, err
	}
	for {
		switch {
		case l.isOp("."):
			l.next()
			if l.accept("(") {
				ty, err := l.parseType()
				if err != nil {
					return nil, err
				}
				if err := l.expect(")"); err != nil {
					return nil, err
				}
				e := l.mk("cast", "", a)
				e.Type = ty
				a = e
				continue
			}
			n := l.next()
			if n.k != "id" {
				return nil, l.errf("expected field name after '.'")
			}
			if l.isOp("(") {
				// method-style call: x.has(k) => call "has" with receiver first;
				// or package-qualified spec function pkg.f(x)
				l.next()
				args, err := l.parseArgs()
				if err != nil {
					return nil, err
				}
				e := l.mk("call", n.s, append([]*Expr{a}, args...)...)
				e.Type = &TypeExpr{Kind: "method"}
				a = e
				continue
			}
			a = l.mk("field", n.s, a)
		case l.isOp("["):
			l.next()
			var lo, hi *Expr
			if !l.isOp(":") {
				lo, err = l.parseExpr()
				if err != nil {
					return nil, err
				}
			}
			if l.accept(":") {
				if !l.isOp("]") {
					hi, err = l.parseExpr()
					if err != nil {
						return nil, err
					}
				}
				if err := l.expect("]"); err != nil {
					return nil, err
				}
				a = &Expr{Kind: "slice", Args: []*Expr{a, lo, hi}, Line: l.peek().line, File: l.file}
				continue
			}
			if err := l.expect("]"); err != nil {
				return nil, err
			}
			a = l.mk("index", "", a, lo)
		default:
			return a, nil
		}
	}
}

func (l *lexer) parsePrimary() (*Expr, error) {
	t := l.next()
	switch t.k {
	case "int":
		return l.mk("int", t.s), nil
	case "str":
		return l.mk("str", t.s), nil
	case "id":
		switch t.s {
		case "true", "false":
			return l.mk("bool", t.s), nil
		case "nil":
			return l.mk("nil", "nil"), nil
		case "old":
			if err := l.expect("("); err != nil {
				return nil, err
			}
			e, err := l.parseExpr()
			if err != nil {
				return nil, err
			}
			if err := l.expect(")"); err != nil {
				return nil, err
			}
			return l.mk("old", "", e), nil
		case "typeof":
			if err := l.expect("("); err != nil {
				return nil, err
			}
			e, err := l.parseExpr()
			if err != nil {
				return nil, err
			}
			if err := l.expect(")"); err != nil {
				return nil, err
			}
			return l.mk("typeof", "", e), nil
		case "typeid":
			if err := l.expect("("); err != nil {
				return nil, err
			}
			ty, err := l.parseType()
			if err != nil {
				return nil, err
			}
			if err := l.expect(")"); err != nil {
				return nil, err
			}
			e := l.mk("typeid", "")
			e.Type = ty
			return e, nil
		case "typeis":
			if err := l.expect("("); err != nil {
				return nil, err
			}
			x, err := l.parseExpr()
			if err != nil {
				return nil, err
			}
			if err := l.expect(","); err != nil {
				return nil, err
			}
			ty, err := l.parseType()
			if err != nil {
				return nil, err
			}
			if err := l.expect(")"); err != nil {
				return nil, err
			}
			e := l.mk("typeis", "", x)
			e.Type = ty
			return e, nil
		}
		if l.isOp("(") {
			l.next()
			args, err := l.parseArgs()
			if err != nil {
				return nil, err
			}
			return l.mk("call", t.s, args...), nil
		}
		return l.mk("ident", t.s), nil
	case "op":
		if t.s == "(" {
			e, err := l.parseExpr()
			if err != nil {
				return nil, err
			}
			if err := l.expect(")"); err != nil {
				return nil, err
			}
			return e, nil
		}
	}
	return nil, fmt.Errorf("%s:%d: unexpected token %q", l.file, t.line, t.s)
}

func parseExprString(s, file string, line int) (*Expr, error) {
	lx, err := lex(s, file, line)
	if err != nil {
		return nil, err
	}
	e, err := lx.parseExpr()
	if err != nil {
		return nil, err
	}
	if lx.peek().k != "eof" {
		return nil, lx.errf("trailing input %q", lx.peek().s)
	}
	return e, nil
}

// ---------------- file-level parser ----------------

var clauseKeywords = map[string]bool{
	"func": true, "method": true, "props": true, "requires": true, "ensures": true,
	"maypanic": true, "assigns": true, "loop": true, "inline": true, "trusted": true,
	"pure": true, "type": true, "spec": true, "unfold": true, "axiom": true, "extern": true,
	"iface": true, "lemma": true, "let": true, "assert": true, "assume": true, "level": true,
	"package": true, "nobody": true, "call": true, "defines": true, "global": true, "maintains": true, "purefn": true, "purecalls": true, "import": true, "callbackparam": true, "assumes": true, "callback": true, "groundunfold": true, "opaque": true, "reveal": true, "uses": true, "conceal": true,
}

type rawClause struct {
	kw   string
	tag  string // [C08,C02]
	text string
	line int
}

// splitClauses turns spec text into keyword-led clauses. A clause continues until
// the next line whose first word is a keyword.
func splitClauses(lines []string, baseLines []int) []rawClause {
	var out []rawClause
	for i, ln := range lines {
		s := strings.TrimSpace(ln)
		if s == "" || strings.HasPrefix(s, "//") {
			continue
		}
		// strip trailing comment
		if k := commentIndex(s); k >= 0 {
			s = strings.TrimSpace(s[:k])
			if s == "" {
				continue
			}
		}
		first := s
		if j := strings.IndexAny(s, " \t[:("); j >= 0 {
			first = s[:j]
		}
		if clauseKeywords[first] && !(first == "let" && len(out) > 0 && continuesExpr(out[len(out)-1])) {
			rest := strings.TrimSpace(s[len(first):])
			tag := ""
			if strings.HasPrefix(rest, "[") && first != "loop" {
				if j := strings.Index(rest, "]"); j >= 0 {
					tag = rest[1:j]
					rest = strings.TrimSpace(rest[j+1:])
				}
			}
			out = append(out, rawClause{kw: first, tag: tag, text: rest, line: baseLines[i]})
		} else if len(out) > 0 {
			out[len(out)-1].text += "\n" + s
		}
	}
	return out
}

// continuesExpr: a "let" line continues an expression if the previous clause text ends with "::" or an operator
func continuesExpr(rc rawClause) bool {
	t := strings.TrimSpace(rc.text)
	return strings.HasSuffix(t, "::") || strings.HasSuffix(t, "==>") || strings.HasSuffix(t, "&&") || strings.HasSuffix(t, "||")
}

func commentIndex(s string) int {
	inStr := false
	for i := 0; i+1 < len(s); i++ {
		if s[i] == '"' {
			inStr = !inStr
		}
		if s[i] == '\\' && inStr {
			i++
			continue
		}
		if !inStr && s[i] == '/' && s[i+1] == '/' {
			return i
		}
	}
	return -1
}

// ParseSpecFile parses either a //@-comment Go file (goFile=true) or a .spec file.
func ParseSpecFile(path string, goFile bool) (*SpecFile, error) {
	data, err := os.ReadFile(path)
	if err != nil {
		return nil, err
	}
	return ParseSpecText(string(data), path, goFile)
}

func ParseSpecText(text, path string, goFile bool) (*SpecFile, error) {
	sf := &SpecFile{Path: path}
	var lines []string
	var lnos []int
	for i, ln := range strings.Split(text, "\n") {
		if goFile {
			s := strings.TrimSpace(ln)
			if strings.HasPrefix(s, "package ") && sf.PkgName == "" {
				sf.PkgName = strings.TrimSpace(strings.TrimPrefix(s, "package "))
				continue
			}
			if strings.HasPrefix(s, "//@") {
				lines = append(lines, s[3:])
				lnos = append(lnos, i+1)
			} else if strings.HasPrefix(s, "// @") {
				lines = append(lines, s[4:])
				lnos = append(lnos, i+1)
			}
		} else {
			lines = append(lines, ln)
			lnos = append(lnos, i+1)
		}
	}
	rcs := splitClauses(lines, lnos)
	var cur *Contract
	ordCount := map[string]int{}
	addClause := func(list *[]*Clause, kind string, rc rawClause) error {
		c := &Clause{Kind: kind, Text: strings.Join(strings.Fields(rc.text), " "), Line: rc.line, File: path}
		if rc.tag != "" {
			for _, p := range strings.Split(rc.tag, ",") {
				c.Props = append(c.Props, strings.TrimSpace(p))
			}
		}
		if strings.TrimSpace(rc.text) != "" {
			e, err := parseExprString(rc.text, path, rc.line)
			if err != nil {
				return err
			}
			c.E = e
		}
		ordCount[kind]++
		c.Ord = ordCount[kind]
		*list = append(*list, c)
		return nil
	}
	for _, rc := range rcs {
		switch rc.kw {
		case "import":
			fs := strings.Fields(rc.text)
			if len(fs) != 2 {
				return nil, fmt.Errorf("%s:%d: import alias path", path, rc.line)
			}
			if sf.Imports == nil {
				sf.Imports = map[string]string{}
			}
			sf.Imports[fs[0]] = fs[1]
		case "package":
			sf.PkgName = strings.TrimSpace(rc.text)
		case "func", "method", "lemma", "extern":
			cur = &Contract{Kind: rc.kw, File: path, Line: rc.line, Loops: map[int]*LoopSpec{}, PkgName: sf.PkgName}
			ordCount = map[string]int{}
			if err := parseContractHeader(cur, rc, path); err != nil {
				return nil, err
			}
			sf.Contracts = append(sf.Contracts, cur)
		case "props":
			if cur == nil {
				return nil, fmt.Errorf("%s:%d: props outside contract", path, rc.line)
			}
			cur.Props = append(cur.Props, strings.Fields(strings.ReplaceAll(rc.text, ",", " "))...)
		case "requires":
			if cur == nil {
				return nil, fmt.Errorf("%s:%d: requires outside contract", path, rc.line)
			}
			if err := addClause(&cur.Requires, "requires", rc); err != nil {
				return nil, err
			}
		case "ensures":
			if cur == nil {
				return nil, fmt.Errorf("%s:%d: ensures outside contract", path, rc.line)
			}
			if err := addClause(&cur.Ensures, "ensures", rc); err != nil {
				return nil, err
			}
		case "assumes":
			// a postcondition that callers may rely on but that is NOT verified on the body: an
			// explicit, named assumption (listed in the evidence of every run that uses it)
			if cur == nil {
				return nil, fmt.Errorf("%s:%d: assumes outside contract", path, rc.line)
			}
			if err := addClause(&cur.Assumes, "assumes", rc); err != nil {
				return nil, err
			}
		case "maypanic":
			if cur == nil {
				return nil, fmt.Errorf("%s:%d: maypanic outside contract", path, rc.line)
			}
			rc2 := rc
			rc2.text = strings.TrimSpace(strings.TrimPrefix(strings.TrimSpace(rc.text), "when"))
			if err := addClause(&cur.MayPanic, "maypanic", rc2); err != nil {
				return nil, err
			}
		case "maintains":
			cur.Maintains = append(cur.Maintains, strings.Fields(rc.text)...)
			if rc.tag != "" {
				if cur.MaintainsScope == nil {
					cur.MaintainsScope = map[string][]string{}
				}
				for _, n := range strings.Fields(rc.text) {
					for _, p := range strings.Split(rc.tag, ",") {
						cur.MaintainsScope[n] = append(cur.MaintainsScope[n], strings.TrimSpace(p))
					}
				}
			}
		case "callbackparam":
			// a function-typed parameter the function only calls: each call increments the ghost
			// counter $ncalls (its first argument is $call($ncalls))
			if cur == nil {
				return nil, fmt.Errorf("%s:%d: callbackparam outside contract", path, rc.line)
			}
			cur.CallbackParams = append(cur.CallbackParams, strings.Fields(rc.text)...)
		case "groundunfold":
			// spec functions whose definition is instantiated on ground terms only (no quantified
			// definitional axiom: avoids matching loops for recursion on an integer argument)
			if cur == nil {
				return nil, fmt.Errorf("%s:%d: groundunfold outside contract", path, rc.line)
			}
			cur.GroundUnfold = append(cur.GroundUnfold, strings.Fields(rc.text)...)
		case "conceal":
			if cur == nil {
				return nil, fmt.Errorf("%s:%d: conceal outside contract", path, rc.line)
			}
			cur.Conceal = append(cur.Conceal, strings.Fields(rc.text)...)
		case "uses":
			if cur == nil {
				return nil, fmt.Errorf("%s:%d: uses outside contract", path, rc.line)
			}
			cur.Uses = append(cur.Uses, strings.Fields(rc.text)...)
		case "reveal":
			if cur == nil {
				return nil, fmt.Errorf("%s:%d: reveal outside contract", path, rc.line)
			}
			cur.Reveal = append(cur.Reveal, strings.Fields(rc.text)...)
		case "opaque":
			for _, n := range strings.Fields(rc.text) {
				found := false
				for _, g := range sf.Funcs {
					if g.Name == n {
						g.Opaque = true
						found = true
					}
				}
				if !found {
					return nil, fmt.Errorf("%s:%d: opaque: unknown spec func %s (declare it earlier in the same file)", path, rc.line, n)
				}
			}
		case "purecalls":
			cur.PureCalls = true
		case "purefn":
			cur.PureFns = append(cur.PureFns, strings.Fields(rc.text)...)
		case "global":
			// global invariant NAME: E
			txt := strings.TrimSpace(strings.TrimPrefix(strings.TrimSpace(rc.text), "invariant"))
			j := strings.Index(txt, ":")
			if j < 0 {
				return nil, fmt.Errorf("%s:%d: global invariant needs 'NAME: E'", path, rc.line)
			}
			e, err := parseExprString(txt[j+1:], path, rc.line)
			if err != nil {
				return nil, err
			}
			sf.GlobalInvs = append(sf.GlobalInvs, &GlobalInv{Name: strings.TrimSpace(txt[:j]), E: e, PkgName: sf.PkgName, File: path, Line: rc.line, Text: strings.Join(strings.Fields(txt[j+1:]), " ")})
			cur = nil
		case "defines":
			e, err := parseExprString(rc.text, path, rc.line)
			if err != nil {
				return nil, err
			}
			cur.Defines = e
		case "assigns":
			cur.Assigns = append(cur.Assigns, strings.TrimSpace(rc.text))
		case "inline":
			cur.Inline = true
		case "pure":
			cur.Pure = true
		case "nobody":
			cur.NoBody = true
		case "trusted":
			cur.Trusted = strings.Trim(strings.TrimSpace(rc.text), "\"")
			if cur.Trusted == "" {
				cur.Trusted = "trusted"
			}
		case "level":
			ls := &LevelSpec{}
			for _, f := range strings.Fields(rc.text) {
				if strings.HasPrefix(f, "depth=") {
					ls.Depth = strings.TrimPrefix(f, "depth=")
				}
				if strings.HasPrefix(f, "captures=") {
					ls.Captures = strings.TrimPrefix(f, "captures=")
				}
			}
			cur.Level = ls
		case "callback":
			// callback callee: invariant E   (continuation lines: invariant E)
			txt := rc.text
			j := strings.Index(txt, ":")
			if j < 0 || cur == nil {
				return nil, fmt.Errorf("%s:%d: callback clause needs 'callback callee: invariant E'", path, rc.line)
			}
			cname := strings.TrimSpace(txt[:j])
			if cur.Callbacks == nil {
				cur.Callbacks = map[string]*LoopSpec{}
			}
			ls := cur.Callbacks[cname]
			if ls == nil {
				ls = &LoopSpec{}
				cur.Callbacks[cname] = ls
			}
			for _, p := range splitLoopParts(strings.TrimSpace(txt[j+1:])) {
				if !strings.HasPrefix(p, "invariant") {
					return nil, fmt.Errorf("%s:%d: bad callback clause %q", path, rc.line, p)
				}
				et := strings.TrimSpace(strings.TrimPrefix(p, "invariant"))
				var scope []string
				if strings.HasPrefix(et, "[") {
					if k := strings.Index(et, "]"); k > 0 {
						for _, pp := range strings.Split(et[1:k], ",") {
							scope = append(scope, strings.TrimSpace(pp))
						}
						et = strings.TrimSpace(et[k+1:])
					}
				}
				e, err := parseExprString(et, path, rc.line)
				if err != nil {
					return nil, err
				}
				ls.Invs = append(ls.Invs, &Clause{Kind: "invariant", E: e, Text: strings.Join(strings.Fields(et), " "), Ord: len(ls.Invs) + 1, Line: rc.line, File: path, Props: scope})
			}
		case "loop":
			// loop N: invariant E | loop N: ghost k int = E step E
			txt := rc.text
			j := strings.Index(txt, ":")
			if j < 0 {
				return nil, fmt.Errorf("%s:%d: loop clause needs 'loop N: ...'", path, rc.line)
			}
			head := strings.TrimSpace(txt[:j])
			inlineOf := ""
			if d := strings.LastIndex(head, "."); d > 0 {
				inlineOf = head[:d]
				head = head[d+1:]
			}
			n, err := strconv.Atoi(head)
			if err != nil {
				return nil, fmt.Errorf("%s:%d: bad loop ordinal", path, rc.line)
			}
			var ls *LoopSpec
			if inlineOf != "" {
				if cur.InlineLoops == nil {
					cur.InlineLoops = map[string]map[int]*LoopSpec{}
				}
				if cur.InlineLoops[inlineOf] == nil {
					cur.InlineLoops[inlineOf] = map[int]*LoopSpec{}
				}
				ls = cur.InlineLoops[inlineOf][n]
				if ls == nil {
					ls = &LoopSpec{Ord: n}
					cur.InlineLoops[inlineOf][n] = ls
				}
			} else {
				ls = cur.Loops[n]
				if ls == nil {
					ls = &LoopSpec{Ord: n}
					cur.Loops[n] = ls
				}
			}
			rest := strings.TrimSpace(txt[j+1:])
			// a loop clause may contain several "invariant" parts on continuation lines
			parts := splitLoopParts(rest)
			for _, p := range parts {
				switch {
				case strings.HasPrefix(p, "invariant"):
					et := strings.TrimSpace(strings.TrimPrefix(p, "invariant"))
					var scope []string
					if strings.HasPrefix(et, "[") {
						if k := strings.Index(et, "]"); k > 0 {
							for _, pp := range strings.Split(et[1:k], ",") {
								scope = append(scope, strings.TrimSpace(pp))
							}
							et = strings.TrimSpace(et[k+1:])
						}
					}
					e, err := parseExprString(et, path, rc.line)
					if err != nil {
						return nil, err
					}
					ls.Invs = append(ls.Invs, &Clause{Kind: "invariant", E: e, Text: strings.Join(strings.Fields(et), " "), Ord: len(ls.Invs) + 1, Line: rc.line, File: path, Props: scope})
				case p == "isolated":
					// the loop body is verified once, from the invariants alone (branch
					// decisions taken before the loop are not assumed)
					ls.Isolated = true
				case strings.HasPrefix(p, "ghost"):
					g, err := parseGhost(strings.TrimSpace(strings.TrimPrefix(p, "ghost")), path, rc.line)
					if err != nil {
						return nil, err
					}
					ls.Ghosts = append(ls.Ghosts, g)
				default:
					return nil, fmt.Errorf("%s:%d: bad loop clause %q", path, rc.line, p)
				}
			}
		case "type":
			// type T invariant E
			txt := rc.text
			j := strings.Index(txt, "invariant")
			if j < 0 {
				return nil, fmt.Errorf("%s:%d: type clause needs invariant", path, rc.line)
			}
			lx, err := lex(txt[:j], path, rc.line)
			if err != nil {
				return nil, err
			}
			ty, err := lx.parseType()
			if err != nil {
				return nil, err
			}
			body := txt[j+len("invariant"):]
			var tiProps []string
			if tb := strings.TrimSpace(body); strings.HasPrefix(tb, "[") {
				if k := strings.Index(tb, "]"); k > 0 {
					for _, pp := range strings.Split(tb[1:k], ",") {
						tiProps = append(tiProps, strings.TrimSpace(pp))
					}
					body = tb[k+1:]
				}
			}
			e, err := parseExprString(body, path, rc.line)
			if err != nil {
				return nil, err
			}
			sf.TypeInvs = append(sf.TypeInvs, &TypeInv{Props: tiProps, Type: ty, E: e, PkgName: sf.PkgName, File: path, Line: rc.line, Text: strings.Join(strings.Fields(body), " ")})
			cur = nil
		case "spec":
			f, err := parseSpecFunc(rc, path)
			if err != nil {
				return nil, err
			}
			f.PkgName = sf.PkgName
			sf.Funcs = append(sf.Funcs, f)
			cur = nil
		case "unfold":
			// unfold name(a,b) = E
			j := strings.Index(rc.text, "=")
			if j < 0 {
				return nil, fmt.Errorf("%s:%d: unfold needs '='", path, rc.line)
			}
			head, err := parseExprString(rc.text[:j], path, rc.line)
			if err != nil {
				return nil, err
			}
			body, err := parseExprString(rc.text[j+1:], path, rc.line)
			if err != nil {
				return nil, err
			}
			var f *SpecFunc
			for _, g := range sf.Funcs {
				if g.Name == head.Name {
					f = g
				}
			}
			if f == nil || head.Kind != "call" || len(head.Args) != len(f.Params) {
				return nil, fmt.Errorf("%s:%d: unfold of unknown spec func %s (must follow its declaration in the same file)", path, rc.line, head.Name)
			}
			// rename params to the names used in the head
			for i, a := range head.Args {
				if a.Kind != "ident" {
					return nil, fmt.Errorf("%s:%d: unfold head args must be identifiers", path, rc.line)
				}
				f.Params[i].Name = a.Name
			}
			f.Unfold = body
		case "axiom":
			j := strings.Index(rc.text, ":")
			if j < 0 {
				return nil, fmt.Errorf("%s:%d: axiom needs 'name: E'", path, rc.line)
			}
			e, err := parseExprString(rc.text[j+1:], path, rc.line)
			if err != nil {
				return nil, err
			}
			sf.Axioms = append(sf.Axioms, &Axiom{Name: strings.TrimSpace(rc.text[:j]), E: e, PkgName: sf.PkgName, File: path, Line: rc.line})
			cur = nil
		case "iface":
			// iface method error.Error(params) = E
			txt := strings.TrimSpace(strings.TrimPrefix(strings.TrimSpace(rc.text), "method"))
			j := strings.Index(txt, "=")
			if j < 0 {
				return nil, fmt.Errorf("%s:%d: iface method needs '='", path, rc.line)
			}
			head := strings.TrimSpace(txt[:j])
			e, err := parseExprString(txt[j+1:], path, rc.line)
			if err != nil {
				return nil, err
			}
			im := &IfaceMethod{E: e, PkgName: sf.PkgName}
			if k := strings.Index(head, "("); k >= 0 {
				lx, err := lex(head[k:], path, rc.line)
				if err != nil {
					return nil, err
				}
				ps, err := lx.parseParams()
				if err != nil {
					return nil, err
				}
				im.Params = ps
				head = head[:k]
			}
			k := strings.LastIndex(head, ".")
			if k < 0 {
				return nil, fmt.Errorf("%s:%d: iface method needs Iface.Method", path, rc.line)
			}
			im.Iface, im.Method = head[:k], head[k+1:]
			sf.IfaceMs = append(sf.IfaceMs, im)
			cur = nil
		case "let", "assert", "assume", "call":
			if cur == nil || cur.Kind != "lemma" {
				return nil, fmt.Errorf("%s:%d: %s outside lemma", path, rc.line, rc.kw)
			}
			st, err := parseLemmaStep(rc, path, ordCount)
			if err != nil {
				return nil, err
			}
			cur.Steps = append(cur.Steps, st)
		default:
			return nil, fmt.Errorf("%s:%d: unknown clause keyword %q", path, rc.line, rc.kw)
		}
	}
	return sf, nil
}

func splitLoopParts(s string) []string {
	var parts []string
	for _, ln := range strings.Split(s, "\n") {
		t := strings.TrimSpace(ln)
		if strings.HasPrefix(t, "invariant") || strings.HasPrefix(t, "ghost") || t == "isolated" || len(parts) == 0 {
			parts = append(parts, t)
		} else {
			parts[len(parts)-1] += " " + t
		}
	}
	return parts
}

func parseGhost(s, path string, line int) (*GhostVar, error) {
	// k int = E step E
	j := strings.Index(s, "=")
	if j < 0 {
		return nil, fmt.Errorf("%s:%d: ghost needs '= init step e'", path, line)
	}
	lx, err := lex(s[:j], path, line)
	if err != nil {
		return nil, err
	}
	n := lx.next()
	ty, err := lx.parseType()
	if err != nil {
		return nil, err
	}
	rest := s[j+1:]
	k := strings.Index(rest, " step ")
	if k < 0 {
		return nil, fmt.Errorf("%s:%d: ghost needs 'step'", path, line)
	}
	init, err := parseExprString(rest[:k], path, line)
	if err != nil {
		return nil, err
	}
	step, err := parseExprString(rest[k+6:], path, line)
	if err != nil {
		return nil, err
	}
	return &GhostVar{Name: n.s, Type: ty, Init: init, Step: step}, nil
}

func (l *lexer) parseParams() ([]Param, error) {
	var ps []Param
	if err := l.expect("("); err != nil {
		return nil, err
	}
	if l.accept(")") {
		return ps, nil
	}
	for {
		var names []string
		for {
			n := l.next()
			if n.k != "id" {
				return nil, l.errf("expected parameter name, found %q", n.s)
			}
			names = append(names, n.s)
			if !l.accept(",") {
				break
			}
		}
		ty, err := l.parseType()
		if err != nil {
			return nil, err
		}
		for _, n := range names {
			ps = append(ps, Param{n, ty})
		}
		if l.accept(",") {
			continue
		}
		if err := l.expect(")"); err != nil {
			return nil, err
		}
		return ps, nil
	}
}

func parseSpecFunc(rc rawClause, path string) (*SpecFunc, error) {
	// spec func name(params) ret [= E]
	txt := strings.TrimSpace(rc.text)
	if !strings.HasPrefix(txt, "func") {
		return nil, fmt.Errorf("%s:%d: expected 'spec func'", path, rc.line)
	}
	txt = strings.TrimSpace(txt[4:])
	lx, err := lex(txt, path, rc.line)
	if err != nil {
		return nil, err
	}
	n := lx.next()
	ps, err := lx.parseParams()
	if err != nil {
		return nil, err
	}
	ret, err := lx.parseType()
	if err != nil {
		return nil, err
	}
	f := &SpecFunc{Name: n.s, Params: ps, Ret: ret, File: path, Line: rc.line}
	if lx.accept("=") {
		e, err := lx.parseExpr()
		if err != nil {
			return nil, err
		}
		f.Def = e
	}
	if lx.peek().k != "eof" {
		return nil, lx.errf("trailing input in spec func: %q", lx.peek().s)
	}
	return f, nil
}

func parseContractHeader(c *Contract, rc rawClause, path string) error {
	txt := strings.TrimSpace(rc.text)
	switch rc.kw {
	case "func":
		// func Name   |  func pkgname.Name (in .spec files)
		c.Kind = "func"
		c.Name = txt
		if j := strings.LastIndex(txt, "."); j >= 0 {
			c.PkgName = txt[:j]
			c.Name = txt[j+1:]
		}
	case "method":
		// method (*T).Name | method (T).Name | method pkgname.(*T).Name
		c.Kind = "method"
		if j := strings.Index(txt, ".("); j >= 0 && !strings.HasPrefix(txt, "(") {
			c.PkgName = txt[:j]
			txt = txt[j+1:]
		}
		j := strings.Index(txt, ")")
		if !strings.HasPrefix(txt, "(") || j < 0 {
			return fmt.Errorf("%s:%d: method needs (T).Name", path, rc.line)
		}
		lx, err := lex(txt[1:j], path, rc.line)
		if err != nil {
			return err
		}
		ty, err := lx.parseType()
		if err != nil {
			return err
		}
		c.Recv = ty
		c.Name = strings.TrimPrefix(strings.TrimSpace(txt[j+1:]), ".")
	case "extern":
		// extern func pkg/path.Name(params) (results) | extern method (recvtype).Name(params) (results)
		if strings.HasPrefix(txt, "func") {
			c.Kind = "extern-func"
			txt = strings.TrimSpace(txt[4:])
		} else if strings.HasPrefix(txt, "method") {
			c.Kind = "extern-method"
			txt = strings.TrimSpace(txt[6:])
		} else {
			return fmt.Errorf("%s:%d: extern func|method", path, rc.line)
		}
		k := strings.Index(txt, "(")
		if c.Kind == "extern-method" {
			// (recv).Name(params)
			j := strings.Index(txt, ")")
			lx, err := lex(txt[1:j], path, rc.line)
			if err != nil {
				return err
			}
			ty, err := lx.parseType()
			if err != nil {
				return err
			}
			c.Recv = ty
			txt = strings.TrimPrefix(strings.TrimSpace(txt[j+1:]), ".")
			k = strings.Index(txt, "(")
		}
		name := txt
		if k >= 0 {
			name = txt[:k]
			lx, err := lex(txt[k:], path, rc.line)
			if err != nil {
				return err
			}
			ps, err := lx.parseParams()
			if err != nil {
				return err
			}
			c.Params = ps
			if lx.isOp("(") {
				rs, err := lx.parseParams()
				if err != nil {
					return err
				}
				c.Results = rs
			}
		}
		c.Name = strings.TrimSpace(name)
		if c.Kind == "extern-func" {
			if j := strings.LastIndex(c.Name, "."); j >= 0 {
				c.Pkg = c.Name[:j]
				c.Name = c.Name[j+1:]
			}
		}
		c.NoBody = true
	case "lemma":
		c.Kind = "lemma"
		k := strings.Index(txt, "(")
		if k < 0 {
			c.Name = txt
			return nil
		}
		c.Name = strings.TrimSpace(txt[:k])
		lx, err := lex(txt[k:], path, rc.line)
		if err != nil {
			return err
		}
		ps, err := lx.parseParams()
		if err != nil {
			return err
		}
		c.Params = ps
	}
	return nil
}

func parseLemmaStep(rc rawClause, path string, ordCount map[string]int) (*LemmaStep, error) {
	st := &LemmaStep{Kind: rc.kw, Line: rc.line}
	switch rc.kw {
	case "assert", "assume":
		e, err := parseExprString(rc.text, path, rc.line)
		if err != nil {
			return nil, err
		}
		ordCount[rc.kw]++
		st.E = e
		st.Clause = &Clause{Kind: rc.kw, E: e, Text: strings.Join(strings.Fields(rc.text), " "), Ord: ordCount[rc.kw], Line: rc.line, File: path}
		if rc.tag != "" {
			st.Clause.Props = strings.Split(rc.tag, ",")
		}
	case "let":
		// let a, b := call pkg.Func(args)   |  let a, b := inline pkg.Func(args) | let a := E
		j := strings.Index(rc.text, ":=")
		if j < 0 {
			return nil, fmt.Errorf("%s:%d: let needs :=", path, rc.line)
		}
		for _, n := range strings.Split(rc.text[:j], ",") {
			st.Names = append(st.Names, strings.TrimSpace(n))
		}
		rhs := strings.TrimSpace(rc.text[j+2:])
		isCall := strings.HasPrefix(rhs, "call ")
		isInline := strings.HasPrefix(rhs, "inline ")
		if isCall || isInline {
			st.Kind = "call"
			st.Inline = isInline
			rhs = strings.TrimSpace(rhs[strings.Index(rhs, " "):])
			k := strings.Index(rhs, "(")
			// method callee may contain parens: pkg.(*T).M(args) -> find the "(" of the arg list: last top-level
			k = calleeArgStart(rhs)
			if k < 0 {
				return nil, fmt.Errorf("%s:%d: call needs arguments", path, rc.line)
			}
			st.Callee = strings.TrimSpace(rhs[:k])
			lx, err := lex(rhs[k:], path, rc.line)
			if err != nil {
				return nil, err
			}
			lx.next()
			args, err := lx.parseArgs()
			if err != nil {
				return nil, err
			}
			st.Args = args
		} else {
			e, err := parseExprString(rhs, path, rc.line)
			if err != nil {
				return nil, err
			}
			st.E = e
		}
	case "call":
		rhs := strings.TrimSpace(rc.text)
		st.Kind = "call"
		if strings.HasPrefix(rhs, "inline ") {
			st.Inline = true
			rhs = strings.TrimSpace(rhs[7:])
		}
		k := calleeArgStart(rhs)
		if k < 0 {
			return nil, fmt.Errorf("%s:%d: call needs arguments", path, rc.line)
		}
		st.Callee = strings.TrimSpace(rhs[:k])
		lx, err := lex(rhs[k:], path, rc.line)
		if err != nil {
			return nil, err
		}
		lx.next()
		args, err := lx.parseArgs()
		if err != nil {
			return nil, err
		}
		st.Args = args
	}
	return st, nil
}

// calleeArgStart finds the '(' that starts the argument list of "pkg.(*T).M(args)" or "pkg.F(args)".
func calleeArgStart(s string) int {
	i := 0
	for i < len(s) {
		if s[i] == '(' {
			// receiver paren if preceded by '.' or at start and followed by ... ").":
			j := strings.Index(s[i:], ")")
			if j >= 0 && i+j+1 < len(s) && s[i+j+1] == '.' && (i == 0 || s[i-1] == '.') {
				i = i + j + 1
				continue
			}
			return i
		}
		i++
	}
	return -1
}
