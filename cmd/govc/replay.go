package main

// Replay of solver counterexamples against the real code through `go test -overlay`.

import (
	"bytes"
	"context"
	"encoding/json"
	"fmt"
	"os"
	"os/exec"
	"path/filepath"
	"regexp"
	"strings"
	"time"
)

// replayTemplate produces an in-package Go test for a failed obligation, or "" if it cannot.
type replayTemplate func(w *World, o *Obligation, q *Query, model map[string]string) (pkgRel string, src string)

var replayTemplates = []struct {
	re *regexp.Regexp
	f  replayTemplate
}{}

func registerReplay(pattern string, f replayTemplate) {
	replayTemplates = append(replayTemplates, struct {
		re *regexp.Regexp
		f  replayTemplate
	}{regexp.MustCompile(pattern), f})
}

func registerReplayFirst(pattern string, f replayTemplate) {
	replayTemplates = append([]struct {
		re *regexp.Regexp
		f  replayTemplate
	}{{regexp.MustCompile(pattern), f}}, replayTemplates...)
}

// parseModel extracts "(define-fun name () Sort value)" entries of 0-ary symbols.
func parseModel(out string) map[string]string {
	m := map[string]string{}
	i := strings.Index(out, "(")
	if i < 0 {
		return m
	}
	s := out[i:]
	// crude s-expression scan of top-level define-funs
	depth := 0
	start := -1
	for k := 0; k < len(s); k++ {
		switch s[k] {
		case '"':
			k++
			for k < len(s) && s[k] != '"' {
				k++
			}
		case '(':
			depth++
			if depth == 2 {
				start = k
			}
		case ')':
			if depth == 2 && start >= 0 {
				def := s[start : k+1]
				if strings.HasPrefix(def, "(define-fun ") {
					rest := strings.TrimSpace(def[len("(define-fun "):])
					sp := strings.IndexAny(rest, " \n")
					if sp > 0 {
						name := strings.Trim(rest[:sp], "|")
						rest = strings.TrimSpace(rest[sp:])
						if strings.HasPrefix(rest, "()") {
							rest = strings.TrimSpace(rest[2:])
							// skip sort
							body := skipSexp(rest)
							m[name] = strings.TrimSpace(strings.TrimSuffix(strings.TrimSpace(body), ")"))
						}
					}
				}
				start = -1
			}
			depth--
		}
	}
	return m
}

func skipSexp(s string) string {
	s = strings.TrimSpace(s)
	if s == "" {
		return s
	}
	if s[0] != '(' {
		j := strings.IndexAny(s, " \n")
		if j < 0 {
			return ""
		}
		return s[j:]
	}
	depth := 0
	for k := 0; k < len(s); k++ {
		switch s[k] {
		case '(':
			depth++
		case ')':
			depth--
			if depth == 0 {
				return s[k+1:]
			}
		}
	}
	return ""
}

func tryReplay(w *World, cfg *RunCfg, prop string, r *FuncResult, o *Obligation, q *Query) (string, bool) {
	model := parseModel(q.Output)
	for _, t := range replayTemplates {
		if t.re.MatchString(o.Name) {
			pkgRel, src := t.f(w, o, q, model)
			if src == "" {
				continue
			}
			dir := filepath.Join(cfg.Verif, "replays", prop)
			os.MkdirAll(dir, 0o755)
			gp := filepath.Join(dir, mangle(o.Name)+"_test.go.txt")
			src = "// overlay: " + pkgRel + "\n" + src
			os.WriteFile(gp, []byte(src), 0o644)
			out, ok := runOverlayTest(cfg, gp)
			return "test: " + gp + "\n" + out, ok
		}
	}
	return "", false
}

// runOverlayTest injects the test file into the package named in its first line and runs it.
func runOverlayTest(cfg *RunCfg, gp string) (string, bool) {
	data, err := os.ReadFile(gp)
	if err != nil {
		return err.Error(), false
	}
	first := strings.SplitN(string(data), "\n", 2)[0]
	pkgRel := strings.TrimSpace(strings.TrimPrefix(first, "// overlay:"))
	tmp, err := os.MkdirTemp("", "govc-replay-")
	if err != nil {
		return err.Error(), false
	}
	defer os.RemoveAll(tmp)
	target := filepath.Join(cfg.Repo, pkgRel, "zz_verif_replay_test.go")
	srcCopy := filepath.Join(tmp, "replay_test.go")
	os.WriteFile(srcCopy, data, 0o644)
	ov := map[string]map[string]string{"Replace": {target: srcCopy}}
	ovData, _ := json.Marshal(ov)
	ovPath := filepath.Join(tmp, "overlay.json")
	os.WriteFile(ovPath, ovData, 0o644)
	ctx, cancel := context.WithTimeout(context.Background(), 180*time.Second)
	defer cancel()
	pkgArg := "./" + pkgRel
	if pkgRel == "" || pkgRel == "." {
		pkgArg = "."
	}
	args := []string{"test", "-overlay", ovPath, "-vet=off", "-count=1", "-timeout", "120s", "-run", "TestVerifReplay"}
	confirm := "REPLAY-CONFIRMED"
	for _, ln := range strings.SplitN(string(data), "\n", 6) {
		if strings.HasPrefix(ln, "// flags:") {
			args = append(args, strings.Fields(strings.TrimPrefix(ln, "// flags:"))...)
		}
		if strings.HasPrefix(ln, "// confirm:") {
			confirm = strings.TrimSpace(strings.TrimPrefix(ln, "// confirm:"))
		}
	}
	args = append(args, pkgArg)
	cmd := exec.CommandContext(ctx, "go", args...)
	cmd.Dir = cfg.Repo
	cmd.Env = append(os.Environ(), "GOFLAGS=-mod=mod", "GOPROXY=off", "GOSUMDB=off", "GOTOOLCHAIN=local", "CGO_ENABLED=1")
	var out bytes.Buffer
	cmd.Stdout = &out
	cmd.Stderr = &out
	cmd.Run()
	text := out.String()
	ok := false
	for _, c := range strings.Split(confirm, "|") {
		if c != "" && strings.Contains(text, c) {
			ok = true
		}
	}
	return trunc(text, 6000), ok
}

func goQuote(s string) string { return fmt.Sprintf("%q", s) }
