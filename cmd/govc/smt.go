package main

// SMT term AST, sorts and printer.

import (
	"fmt"
	"sort"
	"strconv"
	"strings"
)

// Sort is an SMT sort. Sorts are compared by their String() form.
type Sort struct {
	Name string  // Int, Bool, String, Ref, Fn, or datatype / array name
	Args []*Sort // for Array
}

var (
	SInt    = &Sort{Name: "Int"}
	SBool   = &Sort{Name: "Bool"}
	SString = &Sort{Name: "String"}
	SRef    = &Sort{Name: "Ref"}
	SFn     = &Sort{Name: "Fn"}
	SIface  = &Sort{Name: "Iface"}
	SUnit   = &Sort{Name: "Unit"}
)

func ArraySort(k, v *Sort) *Sort { return &Sort{Name: "Array", Args: []*Sort{k, v}} }

func (s *Sort) String() string {
	if s == nil {
		return "<nil-sort>"
	}
	if len(s.Args) == 0 {
		return s.Name
	}
	parts := []string{s.Name}
	for _, a := range s.Args {
		parts = append(parts, a.String())
	}
	return "(" + strings.Join(parts, " ") + ")"
}

func (s *Sort) Eq(o *Sort) bool { return s.String() == o.String() }

// mangled name usable inside identifiers
func (s *Sort) Mangle() string {
	r := strings.NewReplacer("(", "L", ")", "R", " ", "_")
	return r.Replace(s.String())
}

// T is an SMT term.
type T struct {
	Op   string // function symbol / operator; for literals the literal text
	Args []*T
	S    *Sort
	Kind int // kApp, kInt, kStr, kBool, kVar, kQuant
	// quantifier data
	QVars []*T
	Pats  [][]*T
	str   string // cached print
}

const (
	kApp = iota
	kInt
	kStr
	kBool
	kVar // declared constant (0-ary uninterpreted) or bound var
	kQuant
	kLet
)

func App(op string, s *Sort, args ...*T) *T { return &T{Op: op, Args: args, S: s, Kind: kApp} }
func Var(name string, s *Sort) *T           { return &T{Op: name, S: s, Kind: kVar} }
func IntLit(n int64) *T                     { return &T{Op: strconv.FormatInt(n, 10), S: SInt, Kind: kInt} }
func BoolLit(b bool) *T {
	if b {
		return tTrue
	}
	return tFalse
}

var tTrue = &T{Op: "true", S: SBool, Kind: kBool}
var tFalse = &T{Op: "false", S: SBool, Kind: kBool}

func StrLit(s string) *T { return &T{Op: s, S: SString, Kind: kStr} }

func smtString(s string) string {
	var b strings.Builder
	b.WriteByte('"')
	for _, r := range []byte(s) {
		switch {
		case r == '"':
			b.WriteString("\"\"")
		case r >= 0x20 && r < 0x7f && r != '\\':
			b.WriteByte(r)
		default:
			fmt.Fprintf(&b, "\\u{%x}", r)
		}
	}
	b.WriteByte('"')
	return b.String()
}

func (t *T) IsTrue() bool  { return t.Kind == kBool && t.Op == "true" }
func (t *T) IsFalse() bool { return t.Kind == kBool && t.Op == "false" }

func (t *T) String() string {
	if t.str != "" {
		return t.str
	}
	var s string
	switch t.Kind {
	case kInt:
		if strings.HasPrefix(t.Op, "-") {
			s = "(- " + t.Op[1:] + ")"
		} else {
			s = t.Op
		}
	case kStr:
		s = smtString(t.Op)
	case kBool, kVar:
		s = t.Op
	case kQuant:
		var b strings.Builder
		b.WriteString("(" + t.Op + " (")
		for _, v := range t.QVars {
			b.WriteString("(" + v.Op + " " + v.S.String() + ")")
		}
		b.WriteString(") ")
		body := t.Args[0].String()
		if len(t.Pats) > 0 {
			b.WriteString("(! " + body)
			for _, p := range t.Pats {
				b.WriteString(" :pattern (")
				for i, x := range p {
					if i > 0 {
						b.WriteByte(' ')
					}
					b.WriteString(x.String())
				}
				b.WriteString(")")
			}
			b.WriteString(")")
		} else {
			b.WriteString(body)
		}
		b.WriteString(")")
		s = b.String()
	default:
		if len(t.Args) == 0 {
			s = t.Op
		} else {
			var b strings.Builder
			b.WriteString("(" + t.Op)
			for _, a := range t.Args {
				b.WriteByte(' ')
				b.WriteString(a.String())
			}
			b.WriteByte(')')
			s = b.String()
		}
	}
	t.str = s
	return s
}

// ---- smart constructors with light simplification ----

func Not(a *T) *T {
	if a.IsTrue() {
		return tFalse
	}
	if a.IsFalse() {
		return tTrue
	}
	if a.Kind == kApp && a.Op == "not" {
		return a.Args[0]
	}
	return App("not", SBool, a)
}

func And(as ...*T) *T {
	var out []*T
	for _, a := range as {
		if a == nil || a.IsTrue() {
			continue
		}
		if a.IsFalse() {
			return tFalse
		}
		if a.Kind == kApp && a.Op == "and" {
			out = append(out, a.Args...)
			continue
		}
		out = append(out, a)
	}
	if len(out) == 0 {
		return tTrue
	}
	if len(out) == 1 {
		return out[0]
	}
	return App("and", SBool, out...)
}

func Or(as ...*T) *T {
	var out []*T
	for _, a := range as {
		if a == nil || a.IsFalse() {
			continue
		}
		if a.IsTrue() {
			return tTrue
		}
		if a.Kind == kApp && a.Op == "or" {
			out = append(out, a.Args...)
			continue
		}
		out = append(out, a)
	}
	if len(out) == 0 {
		return tFalse
	}
	if len(out) == 1 {
		return out[0]
	}
	return App("or", SBool, out...)
}

func Implies(a, b *T) *T {
	if a.IsTrue() {
		return b
	}
	if a.IsFalse() || b.IsTrue() {
		return tTrue
	}
	return App("=>", SBool, a, b)
}

func Eq(a, b *T) *T {
	if a.String() == b.String() {
		return tTrue
	}
	if a.Kind == kInt && b.Kind == kInt {
		return BoolLit(a.Op == b.Op)
	}
	if a.Kind == kStr && b.Kind == kStr {
		return BoolLit(a.Op == b.Op)
	}
	if a.Kind == kBool && b.Kind == kBool {
		return BoolLit(a.Op == b.Op)
	}
	if !a.S.Eq(b.S) {
		panic(fmt.Sprintf("Eq: sort mismatch %s : %s vs %s : %s", a, a.S, b, b.S))
	}
	return App("=", SBool, a, b)
}

func Ite(c, a, b *T) *T {
	if c.IsTrue() {
		return a
	}
	if c.IsFalse() {
		return b
	}
	if a.String() == b.String() {
		return a
	}
	if !a.S.Eq(b.S) {
		panic(fmt.Sprintf("Ite: sort mismatch %s : %s vs %s : %s", a, a.S, b, b.S))
	}
	return App("ite", a.S, c, a, b)
}

func Add(a, b *T) *T {
	if a.Kind == kInt && b.Kind == kInt {
		x, _ := strconv.ParseInt(a.Op, 10, 64)
		y, _ := strconv.ParseInt(b.Op, 10, 64)
		return IntLit(x + y)
	}
	if b.Kind == kInt && b.Op == "0" {
		return a
	}
	if a.Kind == kInt && a.Op == "0" {
		return b
	}
	return App("+", SInt, a, b)
}
func Sub(a, b *T) *T {
	if a.Kind == kInt && b.Kind == kInt {
		x, _ := strconv.ParseInt(a.Op, 10, 64)
		y, _ := strconv.ParseInt(b.Op, 10, 64)
		return IntLit(x - y)
	}
	if b.Kind == kInt && b.Op == "0" {
		return a
	}
	return App("-", SInt, a, b)
}
func Lt(a, b *T) *T { return cmpI("<", a, b) }
func Le(a, b *T) *T { return cmpI("<=", a, b) }
func Gt(a, b *T) *T { return cmpI(">", a, b) }
func Ge(a, b *T) *T { return cmpI(">=", a, b) }
func cmpI(op string, a, b *T) *T {
	if a.Kind == kInt && b.Kind == kInt {
		x, _ := strconv.ParseInt(a.Op, 10, 64)
		y, _ := strconv.ParseInt(b.Op, 10, 64)
		switch op {
		case "<":
			return BoolLit(x < y)
		case "<=":
			return BoolLit(x <= y)
		case ">":
			return BoolLit(x > y)
		case ">=":
			return BoolLit(x >= y)
		}
	}
	return App(op, SBool, a, b)
}

func Select(arr, idx *T) *T {
	// read-over-write simplification for syntactically equal / distinct literal indexes
	for arr.Kind == kApp && arr.Op == "store" {
		if arr.Args[1].String() == idx.String() {
			return arr.Args[2]
		}
		if (arr.Args[1].Kind == kInt && idx.Kind == kInt) || (arr.Args[1].Kind == kStr && idx.Kind == kStr) {
			arr = arr.Args[0]
			continue
		}
		break
	}
	return App("select", arr.S.Args[1], arr, idx)
}
func Store(arr, idx, v *T) *T {
	if !arr.S.Args[1].Eq(v.S) {
		panic(fmt.Sprintf("Store: sort mismatch %s vs %s", arr.S, v.S))
	}
	return App("store", arr.S, arr, idx, v)
}

func Forall(vars []*T, body *T, pats ...[]*T) *T {
	if len(vars) == 0 || body.IsTrue() {
		return body
	}
	return &T{Op: "forall", Kind: kQuant, QVars: vars, Args: []*T{body}, S: SBool, Pats: pats}
}
func Exists(vars []*T, body *T) *T {
	if len(vars) == 0 || body.IsFalse() {
		return body
	}
	return &T{Op: "exists", Kind: kQuant, QVars: vars, Args: []*T{body}, S: SBool}
}

// Subst replaces variables (by name) in t.
func Subst(t *T, m map[string]*T) *T {
	if len(m) == 0 {
		return t
	}
	switch t.Kind {
	case kInt, kStr, kBool:
		return t
	case kVar:
		if r, ok := m[t.Op]; ok {
			return r
		}
		return t
	case kQuant:
		m2 := m
		for _, v := range t.QVars {
			if _, ok := m[v.Op]; ok {
				if len(m2) == len(m) {
					m2 = map[string]*T{}
					for k, x := range m {
						m2[k] = x
					}
				}
				delete(m2, v.Op)
			}
		}
		nb := Subst(t.Args[0], m2)
		var np [][]*T
		for _, p := range t.Pats {
			var q []*T
			for _, x := range p {
				q = append(q, Subst(x, m2))
			}
			np = append(np, q)
		}
		return &T{Op: t.Op, Kind: kQuant, QVars: t.QVars, Args: []*T{nb}, S: SBool, Pats: np}
	}
	if len(t.Args) == 0 {
		if r, ok := m[t.Op]; ok {
			return r
		}
		return t
	}
	changed := false
	na := make([]*T, len(t.Args))
	for i, a := range t.Args {
		na[i] = Subst(a, m)
		if na[i] != a {
			changed = true
		}
	}
	if !changed {
		return t
	}
	return rebuild(t, na)
}

// rebuild re-applies smart constructors so that substitution simplifies.
func rebuild(t *T, na []*T) *T {
	switch t.Op {
	case "and":
		return And(na...)
	case "or":
		return Or(na...)
	case "not":
		return Not(na[0])
	case "=>":
		return Implies(na[0], na[1])
	case "=":
		if len(na) == 2 {
			return Eq(na[0], na[1])
		}
	case "ite":
		return Ite(na[0], na[1], na[2])
	case "select":
		return Select(na[0], na[1])
	case "+":
		if len(na) == 2 {
			return Add(na[0], na[1])
		}
	case "-":
		if len(na) == 2 {
			return Sub(na[0], na[1])
		}
	case "<", "<=", ">", ">=":
		return cmpI(t.Op, na[0], na[1])
	}
	return &T{Op: t.Op, Args: na, S: t.S, Kind: t.Kind}
}

// Walk visits every subterm (pre-order). Bound variables are visited as kVar.
func Walk(t *T, f func(*T)) {
	f(t)
	for _, a := range t.Args {
		Walk(a, f)
	}
	for _, p := range t.Pats {
		for _, x := range p {
			Walk(x, f)
		}
	}
}

// FreeSyms collects names of kVar and 0-ary/any kApp symbols used (for declarations).
func CollectSyms(t *T, vars map[string]*T, apps map[string]*T, bound map[string]bool) {
	switch t.Kind {
	case kVar:
		if !bound[t.Op] {
			vars[t.Op] = t
		}
	case kQuant:
		nb := map[string]bool{}
		for k := range bound {
			nb[k] = true
		}
		for _, v := range t.QVars {
			nb[v.Op] = true
		}
		CollectSyms(t.Args[0], vars, apps, nb)
		for _, p := range t.Pats {
			for _, x := range p {
				CollectSyms(x, vars, apps, nb)
			}
		}
		return
	case kApp:
		if _, ok := apps[t.Op]; !ok {
			apps[t.Op] = t
		}
	}
	for _, a := range t.Args {
		CollectSyms(a, vars, apps, bound)
	}
}

func sortedKeys[V any](m map[string]V) []string {
	ks := make([]string, 0, len(m))
	for k := range m {
		ks = append(ks, k)
	}
	sort.Strings(ks)
	return ks
}
