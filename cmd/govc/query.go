package main

// Query construction: instantiation of definitional axioms, type facts, declarations, SMT-LIB text.

import (
	"fmt"
	"go/types"
	"sort"
	"strings"

	"golang.org/x/tools/go/ssa"
)

var builtinOps = map[string]bool{
	"and": true, "or": true, "not": true, "=>": true, "=": true, "ite": true, "+": true, "-": true, "*": true,
	"<": true, "<=": true, ">": true, ">=": true, "select": true, "store": true, "distinct": true,
	"str.++": true, "str.len": true, "str.substr": true, "str.prefixof": true, "str.suffixof": true,
	"str.contains": true, "str.at": true, "str.indexof": true, "str.<": true, "str.<=": true, "str.replace": true,
	"mkI": true, "dyn": true, "val": true, "div": true, "mod": true, "str.from_int": true, "str.to_int": true,
}

// containsBound reports whether t mentions any of the bound variable names.
func containsBound(t *T, bound map[string]bool) bool {
	if len(bound) == 0 {
		return false
	}
	found := false
	var rec func(x *T, b map[string]bool)
	rec = func(x *T, b map[string]bool) {
		if found {
			return
		}
		if x.Kind == kVar && b[x.Op] {
			found = true
			return
		}
		if x.Kind == kQuant {
			for _, a := range x.Args {
				rec(a, b)
			}
			return
		}
		for _, a := range x.Args {
			rec(a, b)
		}
	}
	rec(t, bound)
	return found
}

// groundApps collects applications with the given symbol prefix that contain no bound variables.
func groundApps(ts []*T, pred func(op string) bool) []*T {
	seen := map[string]bool{}
	var out []*T
	var rec func(t *T, bound map[string]bool)
	rec = func(t *T, bound map[string]bool) {
		if t.Kind == kQuant {
			nb := map[string]bool{}
			for k := range bound {
				nb[k] = true
			}
			for _, v := range t.QVars {
				nb[v.Op] = true
			}
			rec(t.Args[0], nb)
			return
		}
		if t.Kind == kApp && pred(t.Op) && !containsBound(t, bound) {
			s := t.String()
			if !seen[s] {
				seen[s] = true
				out = append(out, t)
			}
		}
		for _, a := range t.Args {
			rec(a, bound)
		}
	}
	for _, t := range ts {
		rec(t, map[string]bool{})
	}
	return out
}

type methodSpec struct {
	fn   *ssa.Function
	ctr  *Contract
	recv types.Type
}

// methodContractsByName indexes verified method contracts of concrete types.
func (w *World) methodContracts() map[string][]methodSpec {
	if w.mcIndex != nil {
		return w.mcIndex
	}
	w.mcIndex = map[string][]methodSpec{}
	var fns []*ssa.Function
	for fn := range w.Contracts {
		fns = append(fns, fn)
	}
	sort.Slice(fns, func(i, j int) bool { return fns[i].String() < fns[j].String() })
	for _, fn := range fns {
		if recv := fn.Signature.Recv(); recv != nil {
			w.mcIndex[fn.Name()] = append(w.mcIndex[fn.Name()], methodSpec{fn, w.Contracts[fn], recv.Type()})
		}
	}
	return w.mcIndex
}

// instantiate adds definitional facts for ground applications found in the assertions.
func (ex *Ex) instantiate(asserts []*T, heap map[string]*T, rounds int) []*T {
	return ex.instantiateR(asserts, heap, rounds, nil)
}

func (ex *Ex) instantiateR(asserts []*T, heap map[string]*T, rounds int, reveal map[string]bool) []*T {
	w := ex.W
	done := map[string]bool{}
	st := NewState()
	st.heap = copyHeap(heap)
	all := append([]*T(nil), asserts...)
	var extra []*T
	// which spec function symbols are interface-method views
	type imKey struct{ method string }
	imBySym := map[string][]*IfaceMethod{}
	for _, ims := range w.IfaceMs {
		for _, im := range ims {
			if im.E != nil && im.E.Kind == "call" {
				imBySym["f$"+im.E.Name] = append(imBySym["f$"+im.E.Name], im)
			}
		}
	}
	for r := 0; r < rounds; r++ {
		apps := groundApps(all, func(op string) bool { return strings.HasPrefix(op, "f$") })
		var newFacts []*T
		// type constants currently mentioned
		tconsts := map[string]bool{}
		for _, a := range all {
			Walk(a, func(x *T) {
				if x.Kind == kApp && strings.HasPrefix(x.Op, "T$") {
					tconsts[x.Op] = true
				}
			})
		}
		for _, app := range apps {
			key := app.String()
			name := strings.TrimPrefix(app.Op, "f$")
			f := w.SpecFuncs[name]
			if f != nil && f.Unfold != nil && !done["u:"+key] && (!f.Opaque || reveal[name]) && !reveal["!"+name] {
				done["u:"+key] = true
				env := &Env{ex: ex, st: st, vars: map[string]SV{}, pkgName: f.PkgName}
				ok := true
				for i, p := range f.Params {
					pt, err := w.ResolveType(p.Type, f.PkgName)
					if err != nil {
						ok = false
						break
					}
					env.vars[p.Name] = SV{T: app.Args[i], Ty: pt}
				}
				if ok {
					body, err := ex.tr(env, f.Unfold)
					if err != nil {
						w.warnf("unfold %s: %v", name, err)
					} else {
						ret, _ := w.ResolveType(f.Ret, f.PkgName)
						body = ex.coerceNil(body, ret)
						if body.T != nil && body.T.S.Eq(app.S) {
							newFacts = append(newFacts, Eq(app, body.T))
						} else if body.T != nil {
							w.warnf("unfold %s: sort mismatch %s vs %s", name, body.T.S, app.S)
						}
					}
				}
			}
			// defining functions: the ensures of the function whose result the symbol names
			if dc := w.definers()[app.Op]; dc != nil && !done["def:"+key] {
				done["def:"+key] = true
				if fact := ex.definerFact(st, app, dc); fact != nil {
					newFacts = append(newFacts, fact)
				}
			}
			// dispatch facts: method contracts of concrete types
			for _, im := range imBySym[app.Op] {
				for _, ms := range w.methodContracts()[im.Method] {
					tc := w.TypeConst(ms.recv)
					dk := "d:" + key + ":" + tc.Op
					if done[dk] {
						continue
					}
					if !tconsts[tc.Op] {
						continue
					}
					done[dk] = true
					fact := ex.dispatchFact(st, app, im, ms)
					if fact != nil {
						newFacts = append(newFacts, fact)
					}
				}
			}
		}
		// pure calls through a known closure: instantiate the closure's contract
		for _, app := range groundApps(all, func(op string) bool { return strings.HasPrefix(op, "app$") }) {
			key := app.String()
			if done["app:"+key] || len(app.Args) == 0 || app.Args[0].Kind != kApp || !strings.HasPrefix(app.Args[0].Op, "fn$") {
				continue
			}
			done["app:"+key] = true
			if fact := ex.closureFact(st, app); fact != nil {
				newFacts = append(newFacts, fact)
			}
		}
		if len(newFacts) == 0 {
			break
		}
		extra = append(extra, newFacts...)
		all = append(all, newFacts...)
	}
	return extra
}

// quantifiedDefiners: a spec function that names the result of a function (`defines`) and is applied
// to bound variables somewhere gets the function's contract as a quantified fact (pattern: the
// application), since ground instantiation cannot reach those applications.
func (ex *Ex) quantifiedDefiners(asserts []*T, heap map[string]*T) []*T {
	w := ex.W
	need := map[string]bool{}
	var rec func(t *T, bound map[string]bool)
	rec = func(t *T, bound map[string]bool) {
		if t.Kind == kQuant {
			nb := map[string]bool{}
			for k := range bound {
				nb[k] = true
			}
			for _, v := range t.QVars {
				nb[v.Op] = true
			}
			rec(t.Args[0], nb)
			return
		}
		if t.Kind == kApp && w.definers()[t.Op] != nil && containsBound(t, bound) {
			need[t.Op] = true
		}
		for _, a := range t.Args {
			rec(a, bound)
		}
	}
	for _, a := range asserts {
		rec(a, map[string]bool{})
	}
	var out []*T
	for _, sym := range sortedKeys(need) {
		d := w.definers()[sym]
		fn := d.fn
		st := NewState()
		st.heap = copyHeap(heap)
		var vars, args []*T
		ok := true
		for _, a := range d.ctr.Defines.Args {
			if a.Kind != "ident" {
				ok = false
				break
			}
			found := false
			for _, p := range fn.Params {
				if p.Name() == a.Name {
					v := Var(p.Name()+"$d", w.SortOf(p.Type()))
					vars = append(vars, v)
					args = append(args, v)
					st.regs[p] = Val{T: v}
					found = true
				}
			}
			if !found {
				ok = false
			}
		}
		if !ok || fn.Signature.Results().Len() != 1 {
			continue
		}
		for _, p := range fn.Params {
			if _, has := st.regs[p]; !has {
				st.regs[p] = Val{T: Var("any$"+p.Name(), w.SortOf(p.Type()))}
			}
		}
		rt := fn.Signature.Results().At(0).Type()
		app := App(sym, w.SortOf(rt), args...)
		cf := &Frame{Fn: fn, Ctr: d.ctr, Name: w.funcName(fn), Entry: st}
		env := ex.newEnv(cf, st)
		env.pkgName = d.ctr.PkgName
		env.results = []SV{{T: app, Ty: SType{G: rt}}}
		env.resNames = resultNames(fn.Signature)
		var pres, posts []*T
		for _, rq := range d.ctr.Requires {
			if !ex.activeProps(rq.Props) {
				continue
			}
			t, err := ex.trBool(env, rq.E)
			if err != nil {
				ok = false
				break
			}
			pres = append(pres, t)
		}
		for _, en := range d.ctr.Ensures {
			if !ex.activeProps(en.Props) {
				continue
			}
			t, err := ex.trBool(env, en.E)
			if err != nil {
				ok = false
				break
			}
			posts = append(posts, t)
		}
		if !ok || len(posts) == 0 {
			continue
		}
		out = append(out, Forall(vars, Implies(And(pres...), And(posts...)), []*T{app}))
	}
	return out
}

// closureAxioms: for every closure constant fn$F mentioned in the query whose function has a
// contract (and no free variables): fn$F is non-nil, distinct from the other closure constants,
// and its contract holds for all arguments (quantified, with the result applications as patterns;
// closure contracts are not recursive, so e-matching terminates).
func (ex *Ex) closureAxioms(asserts []*T, heap map[string]*T) []*T {
	w := ex.W
	consts := map[string]*T{}
	for _, a := range asserts {
		Walk(a, func(x *T) {
			if x.Kind == kApp && strings.HasPrefix(x.Op, "fn$") && len(x.Args) == 0 {
				consts[x.Op] = x
			}
		})
	}
	if len(consts) == 0 {
		return nil
	}
	if w.fnByConst == nil {
		w.fnByConst = map[string]*ssa.Function{}
		for fn := range w.Contracts {
			w.fnByConst["fn$"+mangle(w.funcName(fn))] = fn
		}
	}
	var out []*T
	names := sortedKeys(consts)
	for i, n := range names {
		out = append(out, Not(Eq(consts[n], App("nil$Fn", SFn))))
		for _, m := range names[i+1:] {
			out = append(out, Not(Eq(consts[n], consts[m])))
		}
		fn := w.fnByConst[n]
		if fn == nil || len(fn.FreeVars) > 0 {
			continue
		}
		ctr := w.Contracts[fn]
		st := NewState()
		st.heap = copyHeap(heap)
		var vars []*T
		args := []*T{consts[n]}
		for _, p := range fn.Params {
			v := Var(p.Name()+"$c", w.SortOf(p.Type()))
			vars = append(vars, v)
			args = append(args, v)
			st.regs[p] = Val{T: v}
		}
		cf := &Frame{Fn: fn, Ctr: ctr, Name: w.funcName(fn), Entry: st}
		env := ex.newEnv(cf, st)
		env.pkgName = ctr.PkgName
		sig := fn.Signature
		var pats []*T
		for i := 0; i < sig.Results().Len(); i++ {
			rt := sig.Results().At(i).Type()
			app := App(appSym(sig, i), w.SortOf(rt), args...)
			env.results = append(env.results, SV{T: app, Ty: SType{G: rt}})
			pats = append(pats, app)
		}
		env.resNames = resultNames(sig)
		var pres, posts []*T
		ok := true
		for _, rq := range ctr.Requires {
			if !ex.activeProps(rq.Props) {
				continue
			}
			t, err := ex.trBool(env, rq.E)
			if err != nil {
				ok = false
				break
			}
			pres = append(pres, t)
		}
		for _, en := range ctr.Ensures {
			if !ex.activeProps(en.Props) {
				continue
			}
			t, err := ex.trBool(env, en.E)
			if err != nil {
				ok = false
				break
			}
			posts = append(posts, t)
		}
		if !ok || len(posts) == 0 || len(vars) == 0 {
			continue
		}
		var patsets [][]*T
		for _, p := range pats {
			patsets = append(patsets, []*T{p})
		}
		out = append(out, Forall(vars, Implies(And(pres...), And(posts...)), patsets...))
	}
	return out
}

// closureFact: for app$sig$i(fn$F, args...) where F has a contract: requires ==> ensures with the
// results named by the app terms.
func (ex *Ex) closureFact(st *State, app *T) *T {
	w := ex.W
	if w.fnByConst == nil {
		w.fnByConst = map[string]*ssa.Function{}
		for fn := range w.Contracts {
			w.fnByConst["fn$"+mangle(w.funcName(fn))] = fn
		}
	}
	fn := w.fnByConst[app.Args[0].Op]
	if fn == nil || len(fn.FreeVars) > 0 {
		return nil
	}
	ctr := w.Contracts[fn]
	if len(fn.Params) != len(app.Args)-1 {
		return nil
	}
	pst := st.Clone()
	for i, p := range fn.Params {
		if !w.SortOf(p.Type()).Eq(app.Args[i+1].S) {
			return nil
		}
		pst.regs[p] = Val{T: app.Args[i+1]}
	}
	cf := &Frame{Fn: fn, Ctr: ctr, Name: w.funcName(fn), Entry: pst}
	env := ex.newEnv(cf, pst)
	env.pkgName = ctr.PkgName
	sig := fn.Signature
	for i := 0; i < sig.Results().Len(); i++ {
		rt := sig.Results().At(i).Type()
		env.results = append(env.results, SV{T: App(appSym(sig, i), w.SortOf(rt), app.Args...), Ty: SType{G: rt}})
	}
	env.resNames = resultNames(sig)
	var pres, posts []*T
	for _, rq := range ctr.Requires {
		if !ex.activeProps(rq.Props) {
			continue
		}
		t, err := ex.trBool(env, rq.E)
		if err != nil {
			return nil
		}
		pres = append(pres, t)
	}
	for _, en := range ctr.Ensures {
		if !ex.activeProps(en.Props) {
			continue
		}
		t, err := ex.trBool(env, en.E)
		if err != nil {
			w.warnf("closure contract %s: %v", cf.Name, err)
			return nil
		}
		posts = append(posts, t)
	}
	if len(posts) == 0 {
		return nil
	}
	return Implies(And(pres...), And(posts...))
}

type definer struct {
	fn  *ssa.Function
	ctr *Contract
}

// definers indexes contracts with a `defines f(params)` clause by spec symbol.
func (w *World) definers() map[string]*definer {
	if w.defIndex != nil {
		return w.defIndex
	}
	w.defIndex = map[string]*definer{}
	for fn, c := range w.Contracts {
		if c.Defines != nil && c.Defines.Kind == "call" {
			w.defIndex["f$"+c.Defines.Name] = &definer{fn, c}
		}
	}
	return w.defIndex
}

// definerFact: requires ==> ensures, with result := app and parameters bound by matching the
// defines-pattern (whose arguments must be plain parameter names).
func (ex *Ex) definerFact(st *State, app *T, d *definer) *T {
	w := ex.W
	fn := d.fn
	if fn.Signature.Results().Len() != 1 || len(d.ctr.Defines.Args) != len(app.Args) {
		return nil
	}
	pst := st.Clone()
	bound := map[string]bool{}
	for i, a := range d.ctr.Defines.Args {
		if a.Kind != "ident" {
			return nil
		}
		for _, p := range fn.Params {
			if p.Name() == a.Name {
				if !w.SortOf(p.Type()).Eq(app.Args[i].S) {
					return nil
				}
				pst.regs[p] = Val{T: app.Args[i]}
				bound[p.Name()] = true
			}
		}
	}
	for _, p := range fn.Params {
		if !bound[p.Name()] {
			// a parameter the symbol does not mention (e.g. a context): the named result does not
			// depend on it by assumption; bind it to an arbitrary value
			pst.regs[p] = Val{T: Var("any$"+p.Name(), w.SortOf(p.Type()))}
		}
	}
	cf := &Frame{Fn: fn, Ctr: d.ctr, Name: w.funcName(fn), Entry: pst}
	env := ex.newEnv(cf, pst)
	env.pkgName = d.ctr.PkgName
	rt := fn.Signature.Results().At(0).Type()
	env.results = []SV{{T: app, Ty: SType{G: rt}}}
	env.resNames = resultNames(fn.Signature)
	var pres, posts []*T
	for _, rq := range d.ctr.Requires {
		if !ex.activeProps(rq.Props) {
			continue
		}
		t, err := ex.trBool(env, rq.E)
		if err != nil {
			return nil
		}
		pres = append(pres, t)
	}
	for _, en := range d.ctr.Ensures {
		if !ex.activeProps(en.Props) {
			continue
		}
		t, err := ex.trBool(env, en.E)
		if err != nil {
			w.warnf("definer %s: %v", cf.Name, err)
			return nil
		}
		posts = append(posts, t)
	}
	if len(posts) == 0 {
		return nil
	}
	return Implies(And(pres...), And(posts...))
}

// dispatchFact: dyn(recv)==T ==> inv(T) && ensures of T's method contract with result := app.
func (ex *Ex) dispatchFact(st *State, app *T, im *IfaceMethod, ms methodSpec) *T {
	w := ex.W
	if len(app.Args) == 0 {
		return nil
	}
	recv := app.Args[0]
	if !recv.S.Eq(SIface) {
		return nil
	}
	fn := ms.fn
	if fn.Signature.Results().Len() != 1 {
		return nil
	}
	rt := fn.Signature.Results().At(0).Type()
	if !w.SortOf(rt).Eq(app.S) {
		return nil
	}
	cf := &Frame{Fn: fn, Ctr: ms.ctr, Name: w.funcName(fn)}
	pst := st.Clone()
	self := ex.unboxAs(recv, ms.recv)
	if len(fn.Params) == 0 {
		return nil
	}
	pst.regs[fn.Params[0]] = Val{T: self}
	// other params from app args (iface method params map positionally after self)
	for i := 1; i < len(fn.Params) && i < len(app.Args); i++ {
		pst.regs[fn.Params[i]] = Val{T: app.Args[i]}
	}
	if len(fn.Params) != len(app.Args) {
		return nil
	}
	cf.Entry = pst
	env := ex.newEnv(cf, pst)
	env.pkgName = ms.ctr.PkgName
	env.results = []SV{{T: app, Ty: SType{G: rt}}}
	env.resNames = resultNames(fn.Signature)
	var posts []*T
	for _, en := range ms.ctr.Ensures {
		if !ex.activeProps(en.Props) {
			continue
		}
		t, err := ex.trBool(env, en.E)
		if err != nil {
			w.warnf("dispatch %s: %v", cf.Name, err)
			return nil
		}
		posts = append(posts, t)
	}
	if _, isPtr := ms.recv.Underlying().(*types.Pointer); isPtr {
		if inv := ex.typeInvTerm(cf, pst, ms.recv, self); inv != nil {
			posts = append(posts, Implies(Not(Eq(self, NilRef)), inv))
		}
	}
	var pres []*T
	for _, rq := range ms.ctr.Requires {
		if !ex.activeProps(rq.Props) {
			continue
		}
		t, err := ex.trBool(env, rq.E)
		if err != nil {
			return nil
		}
		pres = append(pres, t)
	}
	if len(posts) == 0 {
		return nil
	}
	return Implies(And(append([]*T{Eq(Dyn(recv), w.TypeConst(ms.recv))}, pres...)...), And(posts...))
}

// typeFacts: method-set and comparability facts for the type constants mentioned.
func (ex *Ex) typeFacts(asserts []*T) ([]*T, []string) {
	w := ex.W
	tconsts := map[string]bool{}
	preds := map[string]bool{}
	comparableUsed := false
	for _, a := range asserts {
		Walk(a, func(x *T) {
			if x.Kind == kApp {
				if strings.HasPrefix(x.Op, "T$") {
					tconsts[x.Op] = true
				}
				if strings.HasPrefix(x.Op, "hasM$") {
					preds[x.Op] = true
				}
				if x.Op == "comparable" {
					comparableUsed = true
				}
			}
		})
	}
	var facts []*T
	var defs []string
	names := sortedKeys(tconsts)
	byConst := map[string]types.Type{}
	for _, t := range w.typeList {
		byConst["T$"+mangle(w.shortType(t))] = t
	}
	for _, n := range names {
		t := byConst[n]
		if t == nil {
			continue
		}
		defs = append(defs, fmt.Sprintf("(define-fun %s () Int %d)", n, w.TypeID(t)))
		tc := App(n, SInt)
		ms := w.Prog.MethodSets.MethodSet(t)
		for _, p := range sortedKeys(preds) {
			has := false
			for i := 0; i < ms.Len(); i++ {
				sel := ms.At(i)
				if sig, ok := sel.Type().(*types.Signature); ok {
					if hasMethodSym(sel.Obj().Name(), sig) == p {
						has = true
					}
				}
			}
			if has {
				facts = append(facts, App(p, SBool, tc))
			} else {
				facts = append(facts, Not(App(p, SBool, tc)))
			}
		}
		if comparableUsed {
			if types.Comparable(t) {
				facts = append(facts, App("comparable", SBool, tc))
			} else {
				facts = append(facts, Not(App("comparable", SBool, tc)))
			}
		}
	}
	// T13: an interface value whose dynamic type is a pointer type holds a non-nil pointer
	anyPtr := false
	for _, n := range names {
		if t := byConst[n]; t != nil {
			if _, ok := t.Underlying().(*types.Pointer); ok {
				facts = append(facts, App("ptrT", SBool, App(n, SInt)))
				anyPtr = true
			}
		}
	}
	if anyPtr {
		// ground instances only: a universally quantified version would contradict the datatype
		// (mkI T nil is a value of sort Iface)
		seen := map[string]bool{}
		var rec func(t *T, bound map[string]bool)
		rec = func(t *T, bound map[string]bool) {
			if t.Kind == kQuant {
				nb := map[string]bool{}
				for k := range bound {
					nb[k] = true
				}
				for _, v := range t.QVars {
					nb[v.Op] = true
				}
				rec(t.Args[0], nb)
				return
			}
			if t.S != nil && t.S.Eq(SIface) && (t.Kind == kVar || (t.Kind == kApp && t.Op != "mkI" && t.Op != "ite")) && !containsBound(t, bound) {
				k := t.String()
				if !seen[k] {
					seen[k] = true
					facts = append(facts, Implies(App("ptrT", SBool, Dyn(t)), Not(Eq(ValOf(t), NilRef))))
				}
			}
			for _, a := range t.Args {
				rec(a, bound)
			}
		}
		for _, a := range asserts {
			rec(a, map[string]bool{})
		}
	}
	for _, n := range names {
		if id, ok := w.extraTypeConsts[n]; ok {
			defs = append(defs, fmt.Sprintf("(define-fun %s () Int %d)", n, id))
		}
	}
	for _, p := range sortedKeys(preds) {
		facts = append(facts, Not(App(p, SBool, IntLit(0))))
	}
	return facts, defs
}

// relevantAxioms selects global axioms that share a spec-function symbol with the assertions.
func (ex *Ex) relevantAxioms(asserts []*T, heap map[string]*T) []*T {
	w := ex.W
	syms := map[string]bool{}
	collect := func(ts []*T) {
		for _, a := range ts {
			Walk(a, func(x *T) {
				if x.Kind == kApp && !builtinOps[x.Op] {
					syms[x.Op] = true
				}
				if x.Kind == kVar && strings.HasPrefix(x.Op, "G$") {
					syms[x.Op] = true
				}
			})
		}
	}
	collect(asserts)
	st := NewState()
	st.heap = copyHeap(heap)
	used := map[*Axiom]bool{}
	var out []*T
	for changed := true; changed; {
		changed = false
		for _, ax := range w.Axioms {
			if used[ax] {
				continue
			}
			env := &Env{ex: ex, st: st, vars: map[string]SV{}, pkgName: ax.PkgName}
			t, err := ex.trBool(env, ax.E)
			if err != nil {
				w.warnf("axiom %s: %v", ax.Name, err)
				used[ax] = true
				continue
			}
			rel := false
			Walk(t, func(x *T) {
				if x.Kind == kApp && !builtinOps[x.Op] && syms[x.Op] && (strings.HasPrefix(x.Op, "f$") || strings.HasPrefix(x.Op, "x$")) {
					rel = true
				}
				if x.Kind == kVar && strings.HasPrefix(x.Op, "G$") && syms[x.Op] {
					rel = true
				}
			})
			if rel {
				used[ax] = true
				if w.UsedAxioms == nil {
					w.UsedAxioms = map[string]bool{}
				}
				w.UsedAxioms[ax.Name] = true
				out = append(out, t)
				collect([]*T{t})
				changed = true
			}
		}
	}
	return out
}

// quantifiedUnfolds: for recursive spec functions applied to bound variables somewhere in the
// query, ground instantiation cannot reach; emit the definitional axiom quantified with the
// application as its pattern (e-matching).
func (ex *Ex) quantifiedUnfolds(asserts []*T, heap map[string]*T, reveal map[string]bool) []*T {
	w := ex.W
	need := map[string]bool{}
	var rec func(t *T, bound map[string]bool)
	rec = func(t *T, bound map[string]bool) {
		if t.Kind == kQuant {
			nb := map[string]bool{}
			for k := range bound {
				nb[k] = true
			}
			for _, v := range t.QVars {
				nb[v.Op] = true
			}
			rec(t.Args[0], nb)
			return
		}
		if t.Kind == kApp && strings.HasPrefix(t.Op, "f$") && containsBound(t, bound) {
			need[t.Op] = true
		}
		for _, a := range t.Args {
			rec(a, bound)
		}
	}
	for _, a := range asserts {
		rec(a, map[string]bool{})
	}
	st := NewState()
	st.heap = copyHeap(heap)
	var out []*T
	done := map[string]bool{}
	for changed := true; changed; {
		changed = false
		for _, sym := range sortedKeys(need) {
			if done[sym] {
				continue
			}
			done[sym] = true
			f := w.SpecFuncs[strings.TrimPrefix(sym, "f$")]
			if f == nil || f.Unfold == nil || (f.Opaque && !reveal[f.Name]) || reveal["!"+f.Name] || reveal["~"+f.Name] {
				continue
			}
			env := &Env{ex: ex, st: st, vars: map[string]SV{}, pkgName: f.PkgName}
			var vars, args []*T
			ok := true
			for _, p := range f.Params {
				pt, err := w.ResolveType(p.Type, f.PkgName)
				if err != nil {
					ok = false
					break
				}
				v := Var(p.Name+"$u", ex.sortOfS(pt))
				vars = append(vars, v)
				args = append(args, v)
				env.vars[p.Name] = SV{T: v, Ty: pt}
			}
			if !ok {
				continue
			}
			body, err := ex.tr(env, f.Unfold)
			if err != nil {
				continue
			}
			ret, _ := w.ResolveType(f.Ret, f.PkgName)
			body = ex.coerceNil(body, ret)
			app := App(sym, ex.sortOfS(ret), args...)
			if body.T == nil || !body.T.S.Eq(app.S) {
				continue
			}
			out = append(out, Forall(vars, Eq(app, body.T), []*T{app}))
			// functions mentioned in the body are now applied to bound variables too
			Walk(body.T, func(x *T) {
				if x.Kind == kApp && strings.HasPrefix(x.Op, "f$") && !need[x.Op] {
					if g := w.SpecFuncs[strings.TrimPrefix(x.Op, "f$")]; g != nil && g.Unfold != nil {
						need[x.Op] = true
						changed = true
					}
				}
			})
		}
	}
	return out
}

// BuildSMT renders a query.
func (ex *Ex) BuildSMT(q *Query, rounds int) string {
	w := ex.W
	ex.Props = q.Props // scoped clauses of contracts used as facts follow the producing run's scope
	asserts := append([]*T(nil), q.PC...)
	asserts = append(asserts, Not(q.Goal))
	if !ex.Lite {
		extra := ex.instantiateR(asserts, q.Heap, rounds, q.Reveal)
		asserts = append(asserts, extra...)
		ax := ex.relevantAxioms(asserts, q.Heap)
		asserts = append(asserts, ax...)
		// instances for terms introduced by axioms
		extra2 := ex.instantiateR(asserts, q.Heap, 1, q.Reveal)
		asserts = append(asserts, extra2...)
		asserts = append(asserts, ex.quantifiedUnfolds(asserts, q.Heap, q.Reveal)...)
		asserts = append(asserts, ex.closureAxioms(asserts, q.Heap)...)
		asserts = append(asserts, ex.quantifiedDefiners(asserts, q.Heap)...)
	}
	facts, tdefs := ex.typeFacts(asserts)
	asserts = append(asserts, facts...)
	// results of spec functions declared with an interface type have that interface's methods
	for _, app := range groundApps(asserts, func(op string) bool { return strings.HasPrefix(op, "f$") }) {
		if f := w.SpecFuncs[strings.TrimPrefix(app.Op, "f$")]; f != nil && app.S.Eq(SIface) {
			if rt, err := w.ResolveType(f.Ret, f.PkgName); err == nil && rt.G != nil {
				if fact := ex.ifaceTypeFact(app, rt.G); fact != nil {
					asserts = append(asserts, fact)
				}
			}
		}
	}
	// interface values are well-formed: a nil dynamic type means the nil interface
	{
		seen := map[string]bool{}
		var wf []*T
		var rec func(t *T, bound map[string]bool)
		rec = func(t *T, bound map[string]bool) {
			if t.Kind == kQuant {
				nb := map[string]bool{}
				for k := range bound {
					nb[k] = true
				}
				for _, v := range t.QVars {
					nb[v.Op] = true
				}
				rec(t.Args[0], nb)
				return
			}
			if t.S != nil && t.S.Eq(SIface) && (t.Kind == kVar || (t.Kind == kApp && t.Op != "mkI" && t.Op != "ite")) && !containsBound(t, bound) {
				k := t.String()
				if !seen[k] {
					seen[k] = true
					wf = append(wf, Implies(Eq(Dyn(t), IntLit(0)), Eq(t, NilIface)))
				}
			}
			for _, a := range t.Args {
				rec(a, bound)
			}
		}
		for _, a := range asserts {
			rec(a, map[string]bool{})
		}
		asserts = append(asserts, wf...)
	}
	// string literals come from program / contract text: they are PII-free
	{
		usesSafe := false
		lits := map[string]*T{}
		for _, a := range asserts {
			Walk(a, func(x *T) {
				if x.Kind == kApp && x.Op == "f$safeS" {
					usesSafe = true
				}
				if x.Kind == kStr {
					lits[x.Op] = x
				}
			})
		}
		usesWfr := false
		for _, a := range asserts {
			Walk(a, func(x *T) {
				if x.Kind == kApp && x.Op == "f$wfR" {
					usesWfr = true
				}
			})
		}
		if usesWfr {
			// program text without redaction markers is a well-formed redactable fragment
			for _, k := range sortedKeys(lits) {
				if !strings.ContainsAny(k, "\u2039\u203a") {
					asserts = append(asserts, App("f$wfR", SBool, lits[k]))
					asserts = append(asserts, App("f$noMarkers", SBool, lits[k]))
				}
			}
			for _, app := range groundApps(asserts, func(op string) bool { return op == "str.++" }) {
				var parts []*T
				for _, a := range app.Args {
					parts = append(parts, App("f$wfR", SBool, a))
				}
				asserts = append(asserts, Implies(And(parts...), App("f$wfR", SBool, app)))
			}
		}
		usesRsafe := false
		for _, a := range asserts {
			Walk(a, func(x *T) {
				if x.Kind == kApp && x.Op == "f$rsafe" {
					usesRsafe = true
				}
			})
		}
		if usesRsafe {
			// program text is PII-free, hence also as (part of) a redactable string; concatenation
			// of fragments that keep their PII inside markers keeps it inside markers (the fragments
			// are well-formed: C06) - ground instances of axiom rsafe_concat
			hasAx := false
			for _, ax := range w.Axioms {
				if ax.Name == "rsafe_concat" {
					hasAx = true
				}
			}
			if hasAx {
				for _, k := range sortedKeys(lits) {
					asserts = append(asserts, App("f$rsafe", SBool, lits[k]))
				}
				for _, app := range groundApps(asserts, func(op string) bool { return op == "str.++" }) {
					var parts []*T
					for _, a := range app.Args {
						parts = append(parts, App("f$rsafe", SBool, a))
					}
					asserts = append(asserts, Implies(And(parts...), App("f$rsafe", SBool, app)))
				}
			}
		}
		if usesSafe {
			for _, k := range sortedKeys(lits) {
				asserts = append(asserts, App("f$safeS", SBool, lits[k]))
			}
			// ground instances of axiom safe_concat: the solvers do not e-match reliably on the
			// interpreted str.++, so the instances for the concatenations of the query are spelled out
			hasConcatAx := false
			for _, ax := range w.Axioms {
				if ax.Name == "safe_concat" {
					hasConcatAx = true
				}
			}
			if hasConcatAx {
				for _, app := range groundApps(asserts, func(op string) bool { return op == "str.++" }) {
					var parts []*T
					for _, a := range app.Args {
						parts = append(parts, App("f$safeS", SBool, a))
					}
					asserts = append(asserts, Implies(And(parts...), App("f$safeS", SBool, app)))
				}
			}
		}
	}
	// string theory lemma instances (theorems of the theory, spelled out because the solvers do not
	// find them under quantifiers): prefixof(p, a) ==> prefixof(p, a ++ b)
	{
		pfx := map[string]*T{}
		for _, pa := range groundApps(asserts, func(op string) bool { return op == "str.prefixof" }) {
			pfx[pa.Args[0].String()] = pa.Args[0]
		}
		if len(pfx) > 0 && len(pfx) <= 4 {
			for _, ca := range groundApps(asserts, func(op string) bool { return op == "str.++" }) {
				for _, k := range sortedKeys(pfx) {
					asserts = append(asserts, Implies(App("str.prefixof", SBool, pfx[k], ca.Args[0]), App("str.prefixof", SBool, pfx[k], ca)))
				}
			}
		}
	}
	// []byte(s) and string(b) are inverse on what the program converts
	for _, ba := range groundApps(asserts, func(op string) bool { return op == "bytesOf" }) {
		asserts = append(asserts, Eq(App("stringOf$"+ba.S.Mangle(), SString, ba), ba.Args[0]))
	}
	// Go integer division / remainder truncate toward zero (defined through SMT-LIB div)
	for _, da := range groundApps(asserts, func(op string) bool { return op == "gdiv" || op == "grem" }) {
		a, b := da.Args[0], da.Args[1]
		neg := func(x *T) *T { return Sub(IntLit(0), x) }
		sdiv := func(x, y *T) *T { return App("div", SInt, x, y) }
		q := Ite(Ge(a, IntLit(0)),
			Ite(Gt(b, IntLit(0)), sdiv(a, b), neg(sdiv(a, neg(b)))),
			Ite(Gt(b, IntLit(0)), neg(sdiv(neg(a), b)), sdiv(neg(a), neg(b))))
		if da.Op == "gdiv" {
			asserts = append(asserts, Implies(Not(Eq(b, IntLit(0))), Eq(da, q)))
		} else {
			asserts = append(asserts, Implies(Not(Eq(b, IntLit(0))), Eq(da, Sub(a, App("*", SInt, b, q)))))
		}
	}
	// slice lengths are non-negative
	for _, la := range groundApps(asserts, func(op string) bool { return strings.HasPrefix(op, "len$Slice$") }) {
		asserts = append(asserts, Ge(la, IntLit(0)))
	}

	vars := map[string]*T{}
	apps := map[string]*T{}
	for _, a := range asserts {
		CollectSyms(a, vars, apps, map[string]bool{})
	}
	// sorts used
	sortsUsed := map[string]bool{}
	var noteSort func(s *Sort)
	noteSort = func(s *Sort) {
		if s == nil {
			return
		}
		if s.Name == "Array" {
			noteSort(s.Args[0])
			noteSort(s.Args[1])
			return
		}
		if !sortsUsed[s.Name] {
			sortsUsed[s.Name] = true
			if d, ok := w.dtDecls[s.Name]; ok {
				for _, dep := range d.deps {
					noteSort(&Sort{Name: dep})
				}
			}
		}
	}
	for _, a := range asserts {
		Walk(a, func(x *T) {
			noteSort(x.S)
			for _, v := range x.QVars {
				noteSort(v.S)
			}
		})
	}
	var b strings.Builder
	b.WriteString("(set-option :produce-models true)\n")
	b.WriteString("(set-logic ALL)\n")
	b.WriteString("(declare-sort Ref 0)\n(declare-sort Fn 0)\n")
	b.WriteString("(declare-datatypes ((Iface 0)) (((mkI (dyn Int) (val Ref)))))\n")
	// datatype declarations in dependency order
	emitted := map[string]bool{}
	var emit func(n string)
	emit = func(n string) {
		if emitted[n] {
			return
		}
		emitted[n] = true
		d := w.dtDecls[n]
		if d == nil {
			return
		}
		for _, dep := range d.deps {
			emit(dep)
		}
		b.WriteString(d.decl + "\n")
	}
	for _, n := range w.dtOrder {
		if sortsUsed[n] {
			emit(n)
		}
	}
	for _, d := range tdefs {
		b.WriteString(d + "\n")
	}
	for _, n := range sortedKeys(vars) {
		v := vars[n]
		fmt.Fprintf(&b, "(declare-const %s %s)\n", smtSym(n), v.S)
	}
	for _, n := range sortedKeys(apps) {
		a := apps[n]
		if builtinOps[n] || strings.HasPrefix(n, "T$") || isDatatypeSym(n) {
			continue
		}
		switch {
		case strings.HasPrefix(n, "as-const$"):
			continue
		case strings.HasPrefix(n, "constfalse$"):
			continue
		case n == "gdiv" || n == "grem":
			// Go division truncates toward zero; only declared uninterpreted here
		}
		var as []string
		for _, x := range a.Args {
			as = append(as, x.S.String())
		}
		fmt.Fprintf(&b, "(declare-fun %s (%s) %s)\n", smtSym(n), strings.Join(as, " "), a.S)
	}
	for _, a := range asserts {
		b.WriteString("(assert " + renderTerm(a) + ")\n")
	}
	b.WriteString("(check-sat)\n")
	return b.String()
}

func isDatatypeSym(n string) bool {
	return strings.HasPrefix(n, "mk$") || strings.HasPrefix(n, "arr$") || strings.HasPrefix(n, "len$") ||
		strings.HasPrefix(n, "isnil$") || strings.HasPrefix(n, "has$") || strings.HasPrefix(n, "get$") ||
		(strings.HasPrefix(n, "S$") && strings.Contains(n, "."))
}

func smtSym(n string) string {
	// quote symbols with characters outside the simple-symbol set
	simple := true
	for _, r := range n {
		if !(r >= 'a' && r <= 'z' || r >= 'A' && r <= 'Z' || r >= '0' && r <= '9' || strings.ContainsRune("~!@$%^&*_-+=<>.?/", r)) {
			simple = false
		}
	}
	if simple {
		return n
	}
	return "|" + n + "|"
}

// renderTerm prints a term, expanding the pseudo-ops as-const$/constfalse$.
func renderTerm(t *T) string {
	switch t.Kind {
	case kInt, kStr, kBool:
		return t.String()
	case kVar:
		return smtSym(t.Op)
	case kQuant:
		var b strings.Builder
		b.WriteString("(" + t.Op + " (")
		for _, v := range t.QVars {
			b.WriteString("(" + smtSym(v.Op) + " " + v.S.String() + ")")
		}
		b.WriteString(") ")
		body := renderTerm(t.Args[0])
		if len(t.Pats) > 0 {
			b.WriteString("(! " + body)
			for _, p := range t.Pats {
				b.WriteString(" :pattern (")
				for i, x := range p {
					if i > 0 {
						b.WriteByte(' ')
					}
					b.WriteString(renderTerm(x))
				}
				b.WriteString(")")
			}
			b.WriteString(")")
		} else {
			b.WriteString(body)
		}
		b.WriteString(")")
		return b.String()
	}
	if strings.HasPrefix(t.Op, "as-const$") {
		return "((as const " + t.S.String() + ") " + renderTerm(t.Args[0]) + ")"
	}
	if strings.HasPrefix(t.Op, "constfalse$") {
		return "((as const " + t.S.String() + ") false)"
	}
	if len(t.Args) == 0 {
		return smtSym(t.Op)
	}
	var b strings.Builder
	b.WriteString("(" + smtSym(t.Op))
	for _, a := range t.Args {
		b.WriteByte(' ')
		b.WriteString(renderTerm(a))
	}
	b.WriteByte(')')
	return b.String()
}
