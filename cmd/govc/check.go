package main

// The `check` command: plan per property, solve, classify, write evidence.

import (
	"encoding/json"
	"fmt"
	"os"
	"path/filepath"
	"sort"
	"strings"
	"time"

	"golang.org/x/tools/go/ssa"
)

type KnownFinding struct {
	Property   string `json:"property"`
	Obligation string `json:"obligation"`
	What       string `json:"what"`
}

type FixedEntry struct {
	Property string `json:"property"`
	Commit   string `json:"commit"`
	What     string `json:"what"`
}

type KnownFile struct {
	Findings []KnownFinding `json:"findings"`
	Fixed    []string       `json:"fixed"`
}

func loadKnown(verif string) *KnownFile {
	kf := &KnownFile{}
	data, err := os.ReadFile(filepath.Join(verif, "known_findings.json"))
	if err == nil {
		json.Unmarshal(data, kf)
	}
	return kf
}

type workItem struct {
	fn    *ssa.Function
	lemma *Contract
	opts  VerifyOpts
	why   string
}

func hasProp(ps []string, p string) bool {
	for _, x := range ps {
		if x == p {
			return true
		}
	}
	return false
}

func contractMentions(c *Contract, p string) bool {
	if hasProp(c.Props, p) {
		return true
	}
	for _, cl := range c.Ensures {
		if hasProp(cl.Props, p) {
			return true
		}
	}
	for _, sc := range c.MaintainsScope {
		if hasProp(sc, p) {
			return true
		}
	}
	for _, ls := range c.Loops {
		for _, cl := range ls.Invs {
			if hasProp(cl.Props, p) {
				return true
			}
		}
	}
	return false
}

func (w *World) planFor(prop string, cfg *RunCfg) []workItem {
	var items []workItem
	var fns []*ssa.Function
	for fn := range w.Contracts {
		fns = append(fns, fn)
	}
	sort.Slice(fns, func(i, j int) bool { return fns[i].String() < fns[j].String() })
	for _, fn := range fns {
		c := w.Contracts[fn]
		if !contractMentions(c, prop) {
			continue
		}
		if c.Trusted != "" || c.NoBody {
			continue
		}
		// a function that belongs to this property only through a scoped clause owes that clause
		// here; its no-panic obligations are decided under the properties its contract names
		items = append(items, workItem{fn: fn, opts: VerifyOpts{Props: map[string]bool{prop: true}, Safety: hasProp(c.Props, prop), Vacuity: true, Level: prop == "C16"}, why: "contract"})
	}
	for _, l := range w.Lemmas {
		if hasProp(l.Props, prop) {
			items = append(items, workItem{lemma: l, opts: VerifyOpts{Vacuity: true}, why: "lemma"})
		}
	}
	items = append(items, w.sweepsFor(prop, cfg)...)
	if prop == "C03" {
		items = w.encoderSafetySweep(items)
	}
	return items
}

type oblRecord struct {
	Name   string `json:"name"`
	Status string `json:"status"`
	Solver string `json:"solver,omitempty"`
	Ms     int64  `json:"ms"`
	Paths  int    `json:"paths"`
	Text   string `json:"text,omitempty"`
	Pos    string `json:"pos,omitempty"`
}

func cmdCheck(w *World, cfg *RunCfg, prop, replay string, t0 time.Time) int {
	if prop == "" {
		fmt.Fprintln(os.Stderr, "check: -prop required")
		return 2
	}
	if replay != "" {
		return cmdReplay(w, cfg, prop, replay)
	}
	items := w.planFor(prop, cfg)
	if len(items) == 0 {
		fmt.Fprintf(os.Stderr, "check %s: no contracts, lemmas or sweeps are registered for this property\n", prop)
		return 2
	}
	var results []*FuncResult
	for _, it := range items {
		if it.lemma != nil {
			results = append(results, w.RunLemma(it.lemma, it.opts))
		} else {
			r := w.VerifyFunction(it.fn, it.opts)
			if it.opts.Frame && r.Unsupported != "" {
				// outside the executor's subset: the structural frame rule decides this function
				r.Obls = append(r.Obls, w.syntacticFrame(it.fn, r.Name)...)
			}
			results = append(results, r)
		}
	}
	if prop == "C09" || prop == "C06" {
		results = append(results, w.formatDelegation()...)
	}
	results = append(results, w.apiForwarding(prop)...)
	if prop == "C03" || prop == "C09" || prop == "C07" || prop == "C10" {
		results = append(results, w.formatDiscipline()...)
	}
	if prop == "C18" {
		results = append(results, w.globalStateCalls()...)
	}
	if prop == "C06" {
		results = append(results, w.modeIndependence()...)
	}
	if prop == "C06" || prop == "C09" || prop == "C03" {
		results = append(results, w.printerDelegation()...)
	}
	if prop == "C01" || prop == "C11" || prop == "C12" || prop == "C17" {
		results = append(results, w.registryTable(prop)...)
	}
	solveAll(w, cfg, results)
	if cfg.Tier == "thorough" {
		// thorough tier only: the property-level replay oracles are also run once against the
		// unchanged real code ("audit": a BOUNDED test of the property statement and of the extern
		// models, labelled as such - never counted as proof; backend "bounded-replay")
		results = append(results, w.auditOracles(cfg, prop)...)
	}

	known := loadKnown(cfg.Verif)
	isKnown := func(name string) *KnownFinding {
		for i := range known.Findings {
			if known.Findings[i].Property == prop && known.Findings[i].Obligation == name {
				return &known.Findings[i]
			}
		}
		return nil
	}
	var recs []oblRecord
	byBackend := map[string]int{}
	var solverMs int64
	nObl, nDis := 0, 0
	var violations []string
	var knownLines []string
	var drift []string
	var funcs []string
	notes := map[string]bool{}
	machineryErr := false
	var samples []map[string]string
	seenObl := map[string]bool{}
	replayDir := filepath.Join(cfg.Verif, "replays", prop)
	for _, r := range results {
		funcs = append(funcs, r.Name)
		if r.Unsupported != "" {
			drift = append(drift, r.Name+": "+r.Unsupported)
		}
		for _, n := range r.Notes {
			notes[n] = true
		}
		for _, o := range r.Obls {
			if seenObl[o.Name] {
				continue
			}
			seenObl[o.Name] = true
			var ms int64
			solver := ""
			for _, q := range o.Queries {
				ms += q.Ms
				if q.Solver != "" {
					solver = q.Solver
				}
			}
			solverMs += ms
			if o.ExpectFail {
				if o.Status == "vacuous" {
					fmt.Printf("MACHINERY-ERROR: %s: contract precondition is unsatisfiable (vacuous proof)\n", o.Name)
					machineryErr = true
				}
				continue
			}
			if kf := isKnown(o.Name); kf != nil {
				if o.Status != "discharged" {
					knownLines = append(knownLines, fmt.Sprintf("KNOWN-FINDING: property=%s %s: %s", prop, o.Name, kf.What))
					recs = append(recs, oblRecord{Name: o.Name, Status: "known-finding", Solver: solver, Ms: ms, Paths: len(o.Queries), Text: o.Text, Pos: o.Pos})
					continue
				}
				fmt.Printf("NOTE: known finding %s no longer fails\n", o.Name)
			}
			nObl++
			rec := oblRecord{Name: o.Name, Status: o.Status, Solver: solver, Ms: ms, Paths: len(o.Queries), Text: o.Text, Pos: o.Pos}
			recs = append(recs, rec)
			if o.Status == "discharged" {
				nDis++
				if solver == "" {
					solver = "syntactic"
				}
				byBackend[solver]++
				if len(samples) < 3 && len(o.Queries) > 0 && o.Queries[0].SMT != "" {
					samples = append(samples, map[string]string{"obligation": o.Name, "text": o.Text, "smt_head": trunc(lastLines(o.Queries[0].SMT, 6), 1500)})
				}
				continue
			}
			// failed or undecided: write replay file
			path, confirmed := writeReplay(w, cfg, prop, replayDir, r, o)
			line := fmt.Sprintf("VIOLATION property=%s replay=%s", prop, path)
			if !confirmed {
				line += " obligation=" + o.Name + " no-failing-input-found"
			} else {
				line += " obligation=" + o.Name
			}
			violations = append(violations, line)
		}
	}
	sort.Strings(funcs)
	for _, l := range knownLines {
		fmt.Println(l)
	}
	for _, d := range drift {
		fmt.Println("DRIFT: " + d + " (function outside the verifier's subset or contract drift; its obligations are not counted)")
	}
	// lost obligations w.r.t. the committed baseline
	// obligations of functions with abandoned paths are only partially decided: they do not count
	// as present
	driftFn := map[string]bool{}
	for _, d := range drift {
		driftFn[strings.SplitN(d, ":", 2)[0]] = true
	}
	present := map[string]bool{}
	for n := range seenObl {
		if i := strings.Index(n, "#"); i > 0 && driftFn[n[:i]] {
			continue
		}
		present[n] = true
	}
	lost := lostObligations(cfg.Verif, prop, present)
	for _, l := range lost {
		// a property-carrying obligation of the committed baseline can no longer be generated
		// (the function left the verifier's subset or its contract no longer applies to the code):
		// the property is undecided there, which is reported, not passed over
		fmt.Println("LOST-OBLIGATION: " + l)
		why := "the obligation was not generated in this run"
		for _, d := range drift {
			if strings.HasPrefix(l, strings.SplitN(d, ":", 2)[0]+"#") {
				why = d
			}
		}
		os.MkdirAll(replayDir, 0o755)
		rp := filepath.Join(replayDir, mangle(l)+".replay.txt")
		body := fmt.Sprintf("property: %s\nobligation: %s\nstatus: lost (present in baseline_obligations.json, not generated from the current tree)\nreason: %s\n", prop, l, why)
		confirmed := false
		if text, ok := tryReplay(w, cfg, prop, nil, &Obligation{Name: l}, &Query{}); text != "" {
			body += "--- replay on the real code ---\n" + text + "\n"
			confirmed = ok
		}
		if confirmed {
			body += "result: the property-level oracle of this obligation's replay template fails on the real code\n"
			violations = append(violations, fmt.Sprintf("VIOLATION property=%s replay=%s obligation=%s", prop, rp, l))
		} else {
			body += "result: no-failing-input-found (the contract can no longer be checked against this code; the property is undecided for this function)\n"
			violations = append(violations, fmt.Sprintf("VIOLATION property=%s replay=%s obligation=%s no-failing-input-found", prop, rp, l))
		}
		os.WriteFile(rp, []byte(body), 0o644)
	}
	if os.Getenv("VERIF_WRITE_BASELINE") == "1" {
		var keep []oblRecord
		for _, r := range recs {
			if present[r.Name] {
				keep = append(keep, r)
			}
		}
		writeBaseline(cfg.Verif, prop, keep)
	}
	for _, v := range violations {
		fmt.Println(v)
	}
	wall := time.Since(t0).Seconds()
	ev := map[string]interface{}{
		"property_id": prop,
		"tier":        cfg.Tier,
		"seed":        seedFromEnv(),
		"level":       "proof",
		"wall_s":      wall,
		"violations":  len(violations),
		"coverage": map[string]interface{}{
			"obligations":              nObl,
			"discharged":               nDis,
			"checker_cmd":              fmt.Sprintf("bin/govc check -prop %s -tier %s (SSA of %s; z3-new 5.1.0, z3 4.8.12, cvc5 1.0)", prop, cfg.Tier, cfg.Repo),
			"trusted_base":             trustedBase(),
			"functions_under_contract": funcs,
			"by_backend":               byBackend,
			"solver_ms_total":          solverMs,
			"obligation_list":          recs,
			"samples":                  samples,
			"drift":                    drift,
			"lost_obligations":         lost,
			"known_findings":           knownLines,
			"explanation":              "every obligation is a named verification condition generated from the SSA of the current working tree and discharged by an SMT solver (backend 'syntactic': structural rules of sframe.go / trivially true goals); in the thorough tier, obligations named audit.* are BOUNDED runs of the property-level replay oracles on the real code (backend 'bounded-replay'), not proofs; see DESIGN.md",
		},
		"assumptions": append(append(sortedKeys(notes), propAssumptions(prop)...), axiomAssumptions(w)...),
	}
	os.MkdirAll(filepath.Join(cfg.Verif, "evidence"), 0o755)
	data, _ := json.MarshalIndent(ev, "", " ")
	os.WriteFile(filepath.Join(cfg.Verif, "evidence", prop+".json"), data, 0o644)
	fmt.Printf("%s: %d obligations, %d discharged, %d violation(s), %d known finding(s), %d function(s)/lemma(s), %.1fs\n", prop, nObl, nDis, len(violations), len(knownLines), len(funcs), wall)
	if machineryErr {
		return 2
	}
	if len(violations) > 0 {
		return 1
	}
	if nObl == 0 {
		fmt.Println("MACHINERY-ERROR: zero obligations generated")
		return 2
	}
	return 0
}

func lastLines(s string, n int) string {
	ls := strings.Split(strings.TrimRight(s, "\n"), "\n")
	if len(ls) > n {
		ls = ls[len(ls)-n:]
	}
	return strings.Join(ls, "\n")
}

func seedFromEnv() int {
	n := 0
	fmt.Sscanf(os.Getenv("VERIF_SEED"), "%d", &n)
	return n
}

func trustedBase() []string {
	return []string{
		"T1 go/types + go/ssa (source->SSA), govc's SSA->SMT encoder, the SMT solvers",
		"T2 integers are mathematical (no overflow modelled)",
		"T3 strings as SMT-LIB strings (free monoid)",
		"T4 append allocates; no aliasing through spare capacity",
		"T5 error chains finite and acyclic; termination not proved",
		"T6 foreign (non-library) error methods are pure, deterministic, do not panic",
		"T13 interface values never hold typed-nil pointers",
		"T7 extern axioms/contracts in spec/prelude.spec and extras.go (strings, fmt, reflect, redact, protobuf Any, runtime.Callers)",
	}
}

func lostObligations(verif, prop string, seen map[string]bool) []string {
	data, err := os.ReadFile(filepath.Join(verif, "baseline_obligations.json"))
	if err != nil {
		return nil
	}
	var base map[string][]string
	if json.Unmarshal(data, &base) != nil {
		return nil
	}
	var lost []string
	for _, n := range base[prop] {
		if !seen[n] {
			lost = append(lost, n)
		}
	}
	return lost
}

// writeReplay stores what is known about a failed obligation; returns path and whether a
// concrete failing input was confirmed on the real code.
func writeReplay(w *World, cfg *RunCfg, prop, dir string, r *FuncResult, o *Obligation) (string, bool) {
	os.MkdirAll(dir, 0o755)
	path := filepath.Join(dir, mangle(o.Name)+".replay.txt")
	var b strings.Builder
	fmt.Fprintf(&b, "property: %s\nobligation: %s\nkind: %s\nstatus: %s\ntext: %s\nposition: %s\n", prop, o.Name, o.Kind, o.Status, o.Text, o.Pos)
	var fq *Query
	for _, q := range o.Queries {
		if q.Status == "sat" {
			fq = q
			break
		}
	}
	if fq == nil {
		for _, q := range o.Queries {
			if q.Status != "unsat" && q.Status != "trivial" {
				fq = q
				break
			}
		}
	}
	confirmed := false
	if fq != nil && o.Kind == "audit" {
		// a bounded audit IS a run of the real code: its failing output is the replay
		fmt.Fprintf(&b, "--- audit run on the real code (%d ms) ---\n%s\n", fq.Ms, trunc(fq.Output, 20000))
		confirmed = true
	} else if fq != nil {
		fmt.Fprintf(&b, "path: %v\nsolver: %s (%d ms) -> %s\n--- solver output ---\n%s\n", fq.Trace, fq.Solver, fq.Ms, fq.Status, trunc(fq.Output, 20000))
		{
			if text, ok := tryReplay(w, cfg, prop, r, o, fq); text != "" {
				fmt.Fprintf(&b, "--- replay on the real code ---\n%s\n", text)
				confirmed = ok
			}
		}
		smtPath := filepath.Join(dir, mangle(o.Name)+".smt2")
		os.WriteFile(smtPath, []byte(fq.SMT), 0o644)
		fmt.Fprintf(&b, "smt: %s\n", smtPath)
	}
	if !confirmed {
		b.WriteString("result: no-failing-input-found (the obligation is reported on the strength of the verifier's verdict)\n")
	} else {
		b.WriteString("result: failing input confirmed on the real code\n")
	}
	os.WriteFile(path, []byte(b.String()), 0o644)
	return path, confirmed
}

func cmdReplay(w *World, cfg *RunCfg, prop, path string) int {
	data, err := os.ReadFile(path)
	if err != nil {
		fmt.Fprintln(os.Stderr, err)
		return 2
	}
	fmt.Print(string(data))
	// re-run an attached Go replay test if present
	gp := strings.TrimSuffix(path, ".replay.txt") + "_test.go.txt"
	if _, err := os.Stat(gp); err == nil {
		out, ok := runOverlayTest(cfg, gp)
		fmt.Println(out)
		if ok {
			fmt.Printf("VIOLATION property=%s replay=%s\n", prop, path)
			return 1
		}
	}
	return 0
}

// axiomAssumptions: the named axioms of the spec files that were handed to the solver in this run
// (each is an unchecked assumption about a dependency, a declared-safe source or the vocabulary).
func axiomAssumptions(w *World) []string {
	var out []string
	for _, n := range sortedKeys(w.UsedAxioms) {
		out = append(out, "axiom "+n+" (spec files; assumed, not proved)")
	}
	return out
}

// propertyCarrying: obligations whose disappearance means the property is no longer decided
// (postconditions, lemma assertions, re-established invariants, sweep goals). Safety obligations
// are keyed by instruction ordinals and legitimately come and go with harmless edits.
func propertyCarrying(name string) bool {
	i := strings.LastIndex(name, "#")
	if i < 0 {
		return false
	}
	k := name[i+1:]
	for _, p := range []string{"post.", "assert.", "maintains.", "encoder.safe", "nilin.nilout", "inv.", "delegates", "forwards", "formatarg.", "modeindep", "LeafDecoder", "WrapperDecoder", "Migration", "MultiCause", "LeafEncoder", "WrapperEncoder"} {
		if strings.HasPrefix(k, p) {
			return true
		}
	}
	return false
}

// writeBaseline records the property-carrying obligations discharged in this run (maintenance
// command: VERIF_WRITE_BASELINE=1 ./check Cxx on the unchanged tree; never done by a normal run).
func writeBaseline(verif, prop string, recs []oblRecord) {
	path := filepath.Join(verif, "baseline_obligations.json")
	base := map[string][]string{}
	if data, err := os.ReadFile(path); err == nil {
		json.Unmarshal(data, &base)
	}
	var names []string
	for _, r := range recs {
		if r.Status == "discharged" && propertyCarrying(r.Name) {
			names = append(names, r.Name)
		}
	}
	sort.Strings(names)
	base[prop] = names
	data, _ := json.MarshalIndent(base, "", " ")
	os.WriteFile(path, data, 0o644)
}

// auditOracles runs the executable oracle(s) registered for a property on the current tree.
func (w *World) auditOracles(cfg *RunCfg, prop string) []*FuncResult {
	oracles := map[string][]struct {
		name string
		f    replayTemplate
		dummy string
	}{
		"C03": {{"special-case printer: unsafe text never survives Redact()", specialReplay, "errutil.specialCaseFormat#safe.audit"}},
		"C06": {{"redactable renderings of hostile strings are well-formed; unsupported verbs refused", formatReplay, "(*errbase.state).printEntry#audit"}},
		"C09": {{"verbs x flags x width x precision print what fmt prints for Error()", formatReplay, "(*errbase.state).finishDisplay#audit"}},
		"C15": {{"report structure over chains, multi-cause, stack-less and decoded trees", reportReplay, "report.BuildSentryReport#audit"}},
		"C18": {{"16 goroutines x 30 rounds under the race detector + purity of observation", frameReplay, "audit#frame.0"}},
	}
	var out []*FuncResult
	for i, oc := range oracles[prop] {
		name := fmt.Sprintf("audit.%s.%d", prop, i+1)
		o := &Obligation{Name: name, Func: "audit", Kind: "audit", Props: []string{prop}, Text: "BOUNDED audit (thorough tier): " + oc.name}
		q := &Query{Goal: tTrue, Status: "trivial", Solver: "bounded-replay"}
		pkgRel, src := oc.f(w, &Obligation{Name: oc.dummy}, &Query{}, nil)
		if src != "" {
			dir := filepath.Join(cfg.Verif, "replays", prop)
			os.MkdirAll(dir, 0o755)
			gp := filepath.Join(dir, name+"_test.go.txt")
			os.WriteFile(gp, []byte("// overlay: "+pkgRel+"\n"+src), 0o644)
			t0 := time.Now()
			outText, failed := runOverlayTest(cfg, gp)
			q.Ms = time.Since(t0).Milliseconds()
			if failed {
				q.Status = "sat"
				q.Output = outText
			}
		}
		o.Queries = []*Query{q}
		o.Status = "discharged"
		if q.Status == "sat" {
			o.Status = "failed"
		}
		out = append(out, &FuncResult{Name: "audit." + prop, Obls: []*Obligation{o}})
	}
	return out
}
