#!/usr/bin/env python3
"""Runs the repository's test suite (guard off) and compares with /root/.vp/BASELINE.json stable_pass."""
import json, subprocess, sys, os
repo = sys.argv[1] if len(sys.argv) > 1 else '/repo'
env = dict(os.environ, GOFLAGS='-mod=mod', GOPROXY='off', GOSUMDB='off', GOTOOLCHAIN='local')
p = subprocess.run(['go', 'test', '-json', '-vet=off', '-count=1', '-timeout', '25m', './...'], cwd=repo, env=env, capture_output=True, text=True)
passed = set()
for line in p.stdout.splitlines():
    try:
        ev = json.loads(line)
    except Exception:
        continue
    if ev.get('Action') == 'pass' and ev.get('Test'):
        passed.add(ev['Package'] + '::' + ev['Test'])
base = json.load(open('/root/.vp/BASELINE.json'))
stable = set(base['stable_pass'])
missing = sorted(stable - passed)
print(f"passed={len(passed)} stable={len(stable)} missing={len(missing)}")
for m in missing:
    print("MISSING", m)
sys.exit(1 if missing else 0)
