#!/usr/bin/env python3
"""One-off helper that writes the uniform part of the per-package contract files
(type invariant, Error/Cause/Unwrap of annotation wrappers). Hand-written clauses are appended
from /verif/tools/contracts_extra/<pkg>.txt. The output files in /repo are what is committed."""
import os,sys
HDR='''//go:build verif

package %s

// Contracts for the deductive verifier in /verif (comment-only file; see /verif/DESIGN.md).
'''
def wrapper(T, inv=None, error_transparent=True):
    s=f"\n//@ type {T} invariant {inv or 'self.cause != nil'}\n"
    if error_transparent:
        s+=f"//@ method (*{T}).Error\n//@   props C10\n//@   ensures result == msg(self.cause)\n"
    s+=f"//@ method (*{T}).Cause\n//@   props C07 C10 C14\n//@   ensures result == self.cause\n"
    s+=f"//@ method (*{T}).Unwrap\n//@   props C07 C10 C14\n//@   ensures result == self.cause\n"
    if T not in ('withIssueLink',):
        nxt = 'nil' if T=='withNewMessage' else 'self.cause'
        s+=f"//@ method (*{T}).SafeFormatError\n//@   props C09\n//@   requires p != nil\n//@   ensures result == {nxt}\n"
    return s
PK={
 'assert':[('withAssertionFailure',None,True)],
 'domains':[('withDomain',None,True)],
 'secondary':[('withSecondaryError','self.cause != nil && self.secondaryError != nil',True)],
 'withstack':[('withStack','self.cause != nil && self.stack != nil',True)],
 'issuelink':[('withIssueLink',None,True)],
 'telemetrykeys':[('withTelemetry',None,True)],
 'safedetails':[('withSafeDetails',None,True)],
 'contexttags':[('withContext','self.cause != nil && self.tags != nil',True)],
 'exthttp':[('withHTTPCode',None,True)],
 'extgrpc':[('withGrpcCode',None,True)],
 'errutil':[('withPrefix',None,False),('withNewMessage',None,False)],
 'barriers':[],
 'join':[],
}
for pkg,ws in PK.items():
    out=HDR%pkg
    for T,inv,tr in ws:
        out+=wrapper(T,inv,tr)
    extra=f'/verif/tools/contracts_extra/{pkg}.txt'
    if os.path.exists(extra):
        out+="\n"+open(extra).read()
    open(f'/repo/{pkg}/contracts_verif.go','w').write(out)
print("written",list(PK))
