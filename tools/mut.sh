#!/bin/sh
# usage: mut.sh <prop> <python-snippet-file-or-patch>   -- applies a patch to /repo, runs the check, reverts.
# Contract files must be committed in /repo before using this.
PROP="$1"; PATCH="$2"
cd /repo || exit 2
if ! git diff --quiet; then echo "repo dirty"; exit 2; fi
git apply "$PATCH" || { echo "patch does not apply"; exit 2; }
(cd /verif && ./check "$PROP") | grep -v "^  " | cut -c1-220
git checkout -- . 
