#!/usr/bin/env python3
"""usage: core.py file.smt2 [solver]  -- prints an unsat core of the assertions (named a1..)"""
import re,subprocess,sys
f=sys.argv[1]; solver=sys.argv[2] if len(sys.argv)>2 else 'z3'
lines=open(f).read().split('\n')
out=['(set-option :produce-unsat-cores true)']
n=0; names={}
for l in lines:
    if l.startswith('(assert '):
        n+=1; names[f'a{n}']=l
        out.append(f'(assert (! {l[8:-1]} :named a{n}))')
    elif l.startswith('(check-sat'):
        out.append('(check-sat)'); out.append('(get-unsat-core)')
    elif 'produce-models' in l or l.startswith('(get-model'): pass
    else: out.append(l)
open('/tmp/core.smt2','w').write('\n'.join(out))
r=subprocess.run([solver,'-T:20','/tmp/core.smt2'],capture_output=True,text=True).stdout
print(r[:100].replace('\n',' '))
core=re.findall(r'a\d+', r.split('\n',1)[1] if '\n' in r else '')
for c in core[:20]:
    print('  ',c, names[c][:int(sys.argv[3]) if len(sys.argv)>3 else 300])
