#!/usr/bin/env python3
"""Rewrites the table of DESIGN.md §10.1 from the evidence files of the last clean run
(obligation counts, wall time, number of functions / lemmas); the prose column lives here."""
import json
notes={
'C01':'as planned; pair lemmas + functional contracts of the whole wire path; the special-case printer\'s text for os/net wrapper types (it must equal the head of the type\'s own `Error()`, which is what `extractPrefix` ships); API forwarders (`#forwards`); ownership obligations for the encoding path (no drift on re-encoding). 1 known finding (net.OpError `src -> addr`)',
'C02':'as planned + the message-fidelity contracts (extractPrefix, opaque `Error()`, DecodeError/decodeLeaf/decodeWrapper): the mark is message + type chain; oserror predicates ask about the right sentinel',
'C03':'sink sweep over all `redact.Safe` sites, conversions to redactable types as sinks (`rsafe`), SafeDetails/GetSafeDetails/Fill/GetAllSafeDetails safety, registered-encoder sweep, wire invariant `safeEnc`, special-case printer, **the rendering path** (rsEntries invariant, printEntry/formatEntries/formatSingleLineOutput keep "the final buffer keeps PII inside markers", finishDisplay requires it, formatErrorInternal proves it on every path), **constructor sweep** (every function that allocates a type carrying a C03 invariant is verified under C03), **format-string discipline** (`#formatarg.N`), printer delegation, the verbose text of the Sentry report (`Redact()` receiver obligation). Not covered: the other Sentry fields, redact internals (T7)',
'C04':'as planned + opaque carriers\' `SafeFormatError` (which error the engine continues with), ownership obligations for the encoding path; barrier message at unknowing receivers is the recorded finding',
'C05':'as planned (sweep over registered decoders and all error-type methods)',
'C06':'escaping discipline as content contracts over `wfR` (see §10.2), conversion sinks, structural `Format` delegation (shared with C09), printer delegation, mode independence (`#modeindep`). Byte-level balance lives in redact (T7) and in one `assumes` clause of collectEntry; congruence is decided only as far as "every Format goes through the one engine"',
'C07':'as planned + NewWithDepthf: only the `%w` operand becomes the cause',
'C08':'as planned + Join keeps its arguments, type-mark contracts (getTypeDetails / GetTypeMark / GetTypeKey)',
'C09':'verb dispatch / refusal text, `%#v` output, finishDisplay\'s width-precision-verb rule (ghost output `$out`), formatRecursive collects exactly `treeSize(err)` entries, `Format` methods delegate to `FormatError` (structural), every layer\'s SafeFormatError/FormatError returns the right "next" error and hands its own detail to the printer (`$pargs`), special-case printer text (`$ptext`), format-string discipline, printer delegation, `state.detail`, elision of overridden causes in the default and `fmt.Formatter` branches. Not decided: the `%+v` layout. 1 known finding (net.OpError)',
'C10':'as planned + nil-in/nil-out sweep over every exported `func(error…) error`, Is/IsAny/As contracts, API forwarders. 1 known finding (net.OpError)',
'C11':'as planned + getTypeDetails/GetSafeDetails, GetOneLineSource, oserror predicates, grpc status decoders',
'C12':'functional ("equals") retention contracts: constructors, every `SafeDetails()`, `Fill`, `GetAllSafeDetails == allSD(err)`, barrier/secondary `== foldSD(hidden)`, pair lemmas, WrapWithDepthf attaches every error operand as a secondary error, constructor sweep for C12 invariants. Not covered: presence inside the Sentry report and inside redact\'s renderings',
'C13':'as planned + joinError.SafeFormatError','C14':'as planned (stdlib `errors.Is/As/Unwrap` bodies are under contract too)',
'C15':'nil ⇒ nothing; stacks/details aligned per visited node (callback invariant); #exceptions, position, stack object and module of every exception incl. the reversal; synthetic exception; message prefix; printed-stack entry parser; type names of every layer (getTypeDetails / GetSafeDetails); GetOneLineSource innermost-first, GetReportableStackTrace for any StackTrace provider. Not decided: visit order = pre-order, composition lines',
'C16':'as planned (ghost frame levels) + GetOneLineSource innermost-first over Cause()/Unwrap()',
'C17':'as planned + API forwarder of RegisterTypeMigration, built-in migrations in the registry table',
'C18':'read-only frame sweep over 435 functions: ownership obligations from symbolic execution, structural def-chain rule for the functions the executor abandons, element writes through non-owned slices, append onto a truncated view of non-owned storage, no package variable handed to external writers (`#gframe.N`)',
'C19':'as planned + FlattenHints/FlattenDetails (`joinDD`), WithContextTags / GetContextTags (one layer per context with a tag buffer, outermost first, normalised buffers), GetTelemetryKeys (set union, no duplicates), constructors incl. the formatted text of WithHintf/WithDetailf, standard hints (assertion, unimplemented, issue link) as exact texts',
'C20':'as planned + Encode/Decode contracts (what the client does with the unmarshalled message), GetGrpcCode, grpc / gogo status decoders',
}
status={'C06':'claimed (partial)','C09':'claimed (partial)','C15':'claimed (partial)','C18':'claimed (sufficient condition)'}
p='/verif/DESIGN.md'; s=open(p).read()
a=s.index('| id | status | quick (s) | obligations |'); b=s.index('All claimed checks exit 0 on the unchanged (repaired) tree;')
tbl='| id | status | quick (s) | obligations | functions / lemmas | what the check decides now (differences from §5) |\n|----|--------|-----------|-------------|---------|---------------------------------------------------|\n'
for i in range(1,21):
    id=f'C{i:02d}'
    e=json.load(open(f'/verif/evidence/{id}.json'))
    assert e['tier']=='quick', (id, e['tier'])
    w=round(e['wall_s']); o=e['coverage']['obligations']; f=len(set(e['coverage']['functions_under_contract']))
    tbl+=f"| {id} | {status.get(id,'claimed')} | ~{w} | {o} | {f} | {notes[id]} |\n"
open(p,'w').write(s[:a]+tbl+'\n'+s[b:])
print("table rewritten")
