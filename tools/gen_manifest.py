#!/usr/bin/env python3
"""Regenerates /verif/MANIFEST.json from the table below (claimed properties) and properties.jsonl."""
import json, subprocess
props=[json.loads(l) for l in open('/verif/properties.jsonl')]
CLAIMS = json.load(open('/verif/tools/claims.json'))
hooks = subprocess.run("git -C /repo log --format=%h --grep='^verif hook'", shell=True, capture_output=True, text=True).stdout.split()
m={"version":1,"setup_cmd":"./setup.sh",
 "hooks":{"guard":"verif","enable":"comment-only contracts_verif.go files (//go:build verif) are read as text by govc; SSA is built from the normal build configuration (tag off), so the verified code is the code that ships","baseline_off_cmd":"python3 /verif/tools/baseline_check.py /repo","source_commits":hooks,"add_only":True},
 "engines":[{"name":"govc","path":"cmd/govc","serves_properties":sorted(CLAIMS.keys()),"kind_free_text":"self-written verification-condition generator (symbolic execution of go/ssa against //@ contracts), obligations discharged by z3 5.1 / z3 4.8.12 / cvc5 1.0"}],
 "checks":[],"not_applicable":[],
 "notes":"All checks rebuild SSA from /repo's working tree on every run. Known findings: /verif/known_findings.json. Seeded changes: /verif/seeded/."}
for p in props:
    pid=p['id']
    if pid in CLAIMS:
        c=CLAIMS[pid]
        m["checks"].append({"property_id":pid,"quick_cmd":f"./check {pid} --tier quick","thorough_cmd":f"./check {pid} --tier thorough",
          "evidence_file":f"/verif/evidence/{pid}.json","replay_cmd_template":f"./check {pid} --replay {{path}}","engine":"govc",
          "level_claimed":{"category":"proof","text":c["text"],"design_ref":"DESIGN.md §5/"+pid},
          "level_note":c["note"],"technique":c.get("technique","contract-based deductive verification: WP/symbolic execution over go/ssa of the real functions against //@ contracts, VCs discharged by z3/cvc5")})
    else:
        na=json.load(open('/verif/tools/not_applicable.json'))
        m["not_applicable"].append({"property_id":pid,"reason":na.get(pid,"kernel of DESIGN.md §5/%s not completed yet: no obligations are generated for this property, so nothing is claimed"%pid)})
json.dump(m,open('/verif/MANIFEST.json','w'),indent=1)
print("claimed:",sorted(CLAIMS.keys()))
