#!/bin/sh
# Parallel must-fail corpus: like selftest.sh, but every worker has its own scratch copy of the
# repository (a git worktree of /repo's HEAD, contracts included) and its own scratch verification
# directory under /tmp, so /repo and /verif/evidence are not touched. usage: selftest_par.sh [workers]
export GOFLAGS=-mod=mod GOPROXY=off GOSUMDB=off GOTOOLCHAIN=local
N=${1:-4}
BASE=/tmp/pst
rm -rf $BASE; git -C /repo worktree prune; mkdir -p $BASE
git -C /repo diff --quiet || { echo "repo dirty"; exit 2; }
ls -d /verif/seeded/*/ > $BASE/all.txt
for k in $(seq 1 $N); do
  git -C /repo worktree add -q --detach $BASE/repo$k HEAD || exit 2
  mkdir -p $BASE/verif$k
  cp -r /verif/spec /verif/known_findings.json /verif/baseline_obligations.json /verif/MANIFEST.json $BASE/verif$k/
  awk -v n=$N -v k=$k 'NR % n == k % n' $BASE/all.txt > $BASE/list$k.txt
  (
    while read d; do
      [ -f "$d/patch.diff" ] || continue
      prop=$(python3 -c "import json;print(json.load(open('$d/meta.json')).get('property',''))" 2>/dev/null)
      [ -z "$prop" ] && continue
      props="$prop $(cat $d/also_props 2>/dev/null)"
      git -C $BASE/repo$k apply "$d/patch.diff" 2>/dev/null || { echo "SKIP $(basename $d): patch does not apply"; continue; }
      caught=""
      for p in $props; do
        grep -q "\"property_id\": \"$p\"" /verif/MANIFEST.json || continue
        out=$(VERIF_REPO=$BASE/repo$k VERIF_DIR=$BASE/verif$k /verif/bin/govc check -prop $p -tier quick 2>&1)
        if echo "$out" | grep -q "^VIOLATION property=$p"; then
          caught="$caught $p:$(echo "$out" | grep "^VIOLATION" | head -1 | sed 's/.*obligation=\([^ ]*\).*/\1/')"
        fi
      done
      git -C $BASE/repo$k checkout -- .
      if [ -n "$caught" ]; then echo "CAUGHT $(basename $d):$caught"; else echo "MISSED $(basename $d) (props: $props)"; fi
    done < $BASE/list$k.txt
  ) > $BASE/out$k.txt 2>&1 &
done
wait
cat $BASE/out*.txt | sort
for k in $(seq 1 $N); do git -C /repo worktree remove --force $BASE/repo$k; done
git -C /repo worktree prune
if cat $BASE/out*.txt | grep -q "^MISSED\|^SKIP"; then exit 1; fi
exit 0
