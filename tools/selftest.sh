#!/bin/sh
# Must-fail corpus: every seeded change under /verif/seeded/<name>/ (meta.json names the property)
# must be reported by that property's check; the unchanged tree must pass. /repo must be clean.
cd /repo || exit 2
git diff --quiet || { echo "repo dirty"; exit 2; }
FAIL=0
for d in /verif/seeded/*/; do
  [ -f "$d/patch.diff" ] || continue
  prop=$(python3 -c "import json,sys;print(json.load(open('$d/meta.json')).get('property',''))" 2>/dev/null)
  [ -z "$prop" ] && continue
  props="$prop $(cat $d/also_props 2>/dev/null)"
  git apply "$d/patch.diff" 2>/dev/null || { echo "SKIP $(basename $d): patch does not apply"; continue; }
  caught=""
  for p in $props; do
    grep -q "\"property_id\": \"$p\"" /verif/MANIFEST.json || continue
    out=$(cd /verif && ./check $p 2>&1)
    if echo "$out" | grep -q "^VIOLATION property=$p"; then
      caught="$caught $p:$(echo "$out" | grep "^VIOLATION" | head -1 | sed 's/.*obligation=\([^ ]*\).*/\1/')"
    fi
  done
  git checkout -- .
  if [ -n "$caught" ]; then echo "CAUGHT $(basename $d):$caught"; else echo "MISSED $(basename $d) (props: $props)"; FAIL=1; fi
done
exit $FAIL
