#!/bin/sh
# usage: confirm_seed.sh <name> <dir-with-patch.diff-demo_test.go-meta.json>
# Confirms in a scratch worktree: demo passes without the patch, fails with it; baseline unchanged; builds.
export GOFLAGS=-mod=mod GOPROXY=off GOSUMDB=off GOTOOLCHAIN=local
NAME="$1"; SRC="$2"
WT=/tmp/confirm-$NAME
git -C /repo worktree remove --force $WT >/dev/null 2>&1
git -C /repo worktree add --detach $WT HEAD >/dev/null 2>&1 || { echo "worktree failed"; exit 2; }
PLACE=$(head -1 $SRC/demo_test.go | sed -n 's/.*place in: *\([^ ]*\).*/\1/p' | sed 's:/*$::')
[ -z "$PLACE" ] && PLACE=.
cp $SRC/demo_test.go $WT/$PLACE/zz_seeded_demo_test.go
cd $WT
echo "-- demo on pristine tree:"
go test -vet=off -count=1 -run TestSeededDemo ./$PLACE 2>&1 | tail -3
R1=$?
git apply $SRC/patch.diff || { echo "PATCH DOES NOT APPLY"; cd /; git -C /repo worktree remove --force $WT; exit 2; }
echo "-- build with patch:"; go build ./... 2>&1 | tail -3
echo "-- demo with patch:"
go test -vet=off -count=1 -run TestSeededDemo ./$PLACE 2>&1 | grep -E "^(--- FAIL|FAIL|ok|PASS)" | head -5
rm -f $WT/$PLACE/zz_seeded_demo_test.go
echo "-- baseline with patch:"
python3 /verif/tools/baseline_check.py $WT | head -5
cd /; git -C /repo worktree remove --force $WT
