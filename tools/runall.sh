#!/bin/sh
# Runs every claimed check on the current tree, validates MANIFEST and evidence files.
cd /verif
FAIL=0
for p in $(python3 -c "import json;print(' '.join(c['property_id'] for c in json.load(open('MANIFEST.json'))['checks']))"); do
  out=$(./check $p 2>&1); rc=$?
  echo "$out" | tail -1
  if [ $rc -ne 0 ]; then echo "  -> exit $rc"; echo "$out" | grep -E "VIOLATION|MACHINERY" | head -5 | cut -c1-200; FAIL=1; fi
done
python3-vt - <<'PY'
import json,jsonschema,glob
m=json.load(open('/verif/MANIFEST.json'))
jsonschema.validate(m,json.load(open('/root/.vp/MANIFEST.schema.json')))
es=json.load(open('/root/.vp/EVIDENCE.schema.json'))
for c in m['checks']:
    e=json.load(open(c['evidence_file']))
    jsonschema.validate(e,es)
    cov=e['coverage']
    assert cov['obligations']==cov['discharged'], (c['property_id'],cov['obligations'],cov['discharged'])
print("manifest + evidence valid for", len(m['checks']), "checks")
PY
exit $FAIL
